''' C11 - forwarding preserves the bundle and updates only the hop-by-hop
blocks. Engine E5 (relay role, per-node clock skew). DESIGN 5/C11.
'''
import cbor2

from scenarios import bp_net
from props import bp_common as bc
from ref import rfc9171
from dsim.world import World

ID = 'C11'
LEVEL = 'exploration'
RULE = ('1-3 bundles relayed in sequence by one node (so that state carried from one bundle to the next shows): each with any combination of '
        '0-2 previous-node, 0-2 hop-count, 0-1 age and 0-2 unknown extension blocks, arbitrary block numbers (gaps, large; sometimes a duplicate, which may be refused but must not be transmitted), CRC types 0/1/2 per '
        'block, creation time zero or non-zero, flags, dtn/ipn endpoints; relay clock skew (both signs) drawn per run, time advanced between bundles, and the relay process kept busy for 0-1.5 s between reception and the idle callback that forwards. '
        'Received encoding and transmitted bytes are both decoded by the reference decoder and compared. Non-trivial: at least one hop-by-hop '
        'block present on input; distinct = digest of the bundle descriptors.')
COMPONENTS = bc.COMPONENTS
PROBES = ('in.prev_node', 'in.hop_count', 'in.two_hop_count', 'in.age', 'in.create_time_zero', 'in.unknown_ext', 'in.large_block_num', 'seq.multi', 'probe.negative_age', 'fault.busy_before_forward', 'in.duplicate_block_num', 'in.ipn_three_element_eid', 'fault.cl_send_error', 'in.prev_node_not_an_eid', 'in.not_shortest_form')
ASSUMPTIONS = ['age is judged against the relay clock and only for non-negative differences (negative skew is a probe)',
               'hop counts are generated below their limit']
CHUNK = 25
BUDGET = {'quick': 30, 'thorough': 400}


def gen(ch, tier):
    bundles = []
    for bix in range(1 + ch.weighted('nb', (3, 3, 2))):
        blocks = []
        nums = [2, 3, 4, 5, 6, 7, 9, 23, 24, 255, 256, 70000]
        used = set()

        def num():
            for _ in range(20):
                cand = ch.choice('num', nums)
                if cand not in used:
                    used.add(cand)
                    return cand
            cand = 100 + len(used)
            used.add(cand)
            return cand

        for _ in range(ch.weighted('nprev', (3, 3, 1))):
            blocks.append(dict(type=6, num=num(), crc_type=ch.pick('c', 3), flags=0, eid=ch.choice('prev', ('dtn://prev/', 'ipn:9.0', 'dtn://n1/', 'ipn:977000.9.0', 'dtn://prev/', 'NOT-AN-EID'))))
        for _ in range(ch.weighted('nhop', (3, 3, 2))):
            blocks.append(dict(type=10, num=num(), crc_type=ch.pick('c', 3), flags=ch.choice('hf', (0, 1)), limit=ch.choice('lim', (30, 255, 1000)), count=ch.choice('cnt', (0, 1, 22, 23, 24))))
        if ch.coin('age', 1, 2):
            blocks.append(dict(type=7, num=num(), crc_type=ch.pick('c', 3), flags=0, age=ch.choice('agev', (0, 23, 1000, 70000))))
        for _ in range(ch.weighted('nunk', (4, 2, 1))):
            blocks.append(dict(type=ch.choice('ut', (192, 200, 64)), num=num(), crc_type=ch.pick('c', 3), flags=ch.choice('uf', (0, 1)), raw='4' + '3' + '616263'))
        dup_nums = False
        if len(blocks) >= 2 and ch.coin('dupnum', 1, 12):
            # malformed input: two blocks with the same number (such a bundle must not leave with duplicate numbers)
            blocks[1]['num'] = blocks[0]['num']
            dup_nums = True
        order = list(range(len(blocks)))
        # shuffle block order deterministically
        for ix in range(len(order) - 1, 0, -1):
            jx = ch.pick('shuf', ix + 1)
            (order[ix], order[jx]) = (order[jx], order[ix])
        blocks = [blocks[ix] for ix in order]
        bundles.append(dict(
            source=ch.choice('src', ('dtn://src/', 'ipn:3.1', 'ipn:977000.3.1', 'dtn://src/svc#frag')), dest=ch.choice('dst', ('dtn://far/app', 'ipn:77.1', 'ipn:977000.77.1', 'dtn://far/app?q=1')),
            report_to=ch.choice('rpt', ('dtn:none', 'dtn://rpt/', 'ipn:977000.5.0')), time=ch.choice('ct', (0, 820000000000, 820000000000)) , seqno=bix,
            cl_fail=(bix < 2 and ch.coin('clfail', 1, 8)), lifetime=ch.choice('life', (1000, 3600000)), flags=ch.choice('fl', (0, 4, 0x20)), pri_crc=ch.choice('pc', (0, 1, 2, 2)),
            pay_crc=ch.pick('yc', 3), plen=1 + ch.pick('plen', 60), tag=bix + 1, blocks=blocks, gap_ms=ch.choice('gap', (0, 1, 999, 60000)),
            busy_ms=ch.choice('busy', (0, 0, 0, 3, 40, 1500)), dup_nums=dup_nums))
    for item in bundles:
        # legal encodings that are not the shortest form (an unsigned integer with a wider head): the relay decodes the same
        # values, and whatever it transmits must again carry CRCs that fit the transmitted octets
        if ch.coin('wide', 1, 4):
            item['wide_pri'] = ch.choice('wide.pri', ([], [7], [1], [7, 1]))
            item['wide_pay'] = ch.choice('wide.pay', ([], [1], [2]))
            for blk in item['blocks']:
                if blk['type'] not in (6, 7, 10) or ch.coin('wide.known', 1, 2):
                    blk['wide'] = ch.choice('wide.blk', ([], [1], [2], [1, 2]))
    return dict(scenario='bp_forward', bundles=bundles, skew_ms=ch.choice('skew', (0, 0, 5000, 86400000, -5000, -86400000, -864000000)))


def encode(item):
    pri = dict(wide=tuple(item.get('wide_pri', ())), flags=item['flags'], crc_type=item['pri_crc'], destination='dtn://broken/app' if item.get('cl_fail') else item['dest'], source=item['source'], report_to=item['report_to'],
               create_time=item['time'], seqno=item['seqno'], lifetime=item['lifetime'])
    blocks = []
    for blk in item['blocks']:
        if blk['type'] == 6:
            # a Previous Node block whose content is not an EID at all (an unsigned integer): if the bundle is forwarded
            # regardless, the block still has to go
            btsd = cbor2.dumps(rfc9171.text_to_eid(blk['eid'])) if blk['eid'] != 'NOT-AN-EID' else b'\x05'
        elif blk['type'] == 10:
            btsd = cbor2.dumps([blk['limit'], blk['count']])
        elif blk['type'] == 7:
            btsd = cbor2.dumps(blk['age'])
        else:
            btsd = bytes.fromhex(blk['raw'])
        blocks.append(dict(type=blk['type'], num=blk['num'], flags=blk['flags'], crc_type=blk['crc_type'], btsd=btsd, wide=tuple(blk.get('wide', ()))))
    blocks.append(dict(type=1, num=1, flags=0, crc_type=item['pay_crc'], btsd=bc.body(item['tag'], item['plen']), wide=tuple(item.get('wide_pay', ()))))
    return rfc9171.encode_bundle(pri, blocks)


class Run:
    pass


def execute(plan, sched, verbose=False):
    nodes = {'n1': dict(node_id='dtn://n1/', rx_routes=[['.*', 'forward']],
                        tx_routes=[['^dtn://broken/.*$', 'dtn://dead/', None, 'FAIL'], ['.*', 'dtn://next/', None, None]],
                        skew_us=plan['skew_ms'] * 1000)}
    har = bp_net.BpHarness(dict(nodes=nodes), sched, verbose)
    run = Run()
    run.har = har
    run.wld = har.wld
    run.plan = plan
    run.viols = []
    run.stats = {}
    try:
        _drive(run, plan, har)
    finally:
        har.close()
    return run


DTN_EPOCH_UNIX = 946684800


def _drive(run, plan, har):
    for (ix, item) in enumerate(plan['bundles']):
        har.advance(item['gap_ms'] * 1000)
        data = encode(item)
        rin = rfc9171.decode_bundle(data)
        mark = len(har.cl_out['n1'])
        t_before = har.wld.wall_us(har.node['n1'])
        rec = har.receive('n1', data)
        # slow node: the process is busy for a while between reception and the idle callback that forwards
        busy_us = item.get('busy_ms', 0) * 1000
        if busy_us:
            node = har.node['n1']
            node.stall_until = max(node.stall_until, har.wld.now + busy_us)
            run.stats['fault.busy_before_forward'] = 1
        har.settle()
        t_after = har.wld.wall_us(har.node['n1'])
        outs = har.cl_out['n1'][mark:]
        (decoded, errs) = bc.decode_outputs(outs)
        where = 'bundle #%d' % ix
        if errs:
            run.viols.append(('wellformed', 'undecodable-output', '%s: transmitted bytes are not a well-formed bundle: %s' % (where, errs[0][1])))
            return
        fwds = [dec for dec in decoded if not bc.is_admin(dec)]
        if item.get('cl_fail'):
            # the convergence layer refused this one: nothing of it may appear, now or together with a later bundle
            run.stats['fault.cl_send_error'] = 1
            if fwds:
                run.viols.append(('forwarded', 'after-cl-failure', '%s was transmitted although its convergence layer refused it' % where))
                return
            continue
        if item.get('dup_nums'):
            run.stats['in.duplicate_block_num'] = 1
            if not fwds:
                # refusing a bundle with duplicate block numbers is fine
                continue
        if len(fwds) != 1:
            run.viols.append(('forwarded', 'count-%d' % len(fwds), '%s was transmitted %d times (recv error %s, actions %s)' % (where, len(fwds), rec['error'], rec['actions'])))
            return
        out = fwds[0]
        (pin, pout) = (rin['primary'], out['primary'])
        for fld in ('version', 'flags', 'destination', 'source', 'report_to', 'create_time', 'seqno', 'lifetime'):
            if pin[fld] != pout[fld]:
                run.viols.append(('primary', fld, '%s: primary %s changed from %r to %r' % (where, fld, pin[fld], pout[fld])))
        if rfc9171.payload(out) != rfc9171.payload(rin):
            run.viols.append(('payload', 'changed', '%s: payload changed' % where))
        prevs = [blk for blk in out['blocks'] if blk['type'] == 6]
        if len(prevs) != 1:
            run.viols.append(('prev-node', 'count-%d' % len(prevs), '%s: %d Previous Node blocks transmitted' % (where, len(prevs))))
        else:
            try:
                eid = rfc9171.eid_to_text(cbor2.loads(prevs[0]['btsd']))
            except Exception:  # pylint: disable=broad-except
                eid = None
            if eid != 'dtn://n1/':
                run.viols.append(('prev-node', 'wrong-node', '%s: Previous Node block names %r' % (where, eid)))
        hops_in = sorted(tuple(cbor2.loads(blk['btsd'])) for blk in rin['blocks'] if blk['type'] == 10)
        try:
            hops_out = sorted(tuple(cbor2.loads(blk['btsd'])) for blk in out['blocks'] if blk['type'] == 10)
        except Exception:  # pylint: disable=broad-except
            hops_out = None
        want = sorted((limit, count + 1) for (limit, count) in hops_in)
        if hops_out != want:
            kind = 'unchanged-on-wire' if hops_out == hops_in else 'wrong'
            run.viols.append(('hop-count', kind, '%s: hop count blocks on the wire %r, expected %r' % (where, hops_out, want)))
        ages = [blk for blk in out['blocks'] if blk['type'] == 7]
        if len(ages) > 1:
            run.viols.append(('age', 'count-%d' % len(ages), '%s: %d Bundle Age blocks transmitted' % (where, len(ages))))
        elif ages and pin['create_time'] != 0:
            age = cbor2.loads(ages[0]['btsd'])
            # the age is that at forwarding (RFC 9171 4.4.2), which cannot begin before the node is free again
            low = (t_before + busy_us) // 1000 - DTN_EPOCH_UNIX * 1000 - pin['create_time']
            high = t_after // 1000 - DTN_EPOCH_UNIX * 1000 - pin['create_time']
            if low < 0:
                run.stats['probe.negative_age'] = 1
            elif not (isinstance(age, int) and low <= age <= high + 1):
                run.viols.append(('age', 'wrong-value', '%s: age %r, time since creation on the relay clock is %d..%d ms' % (where, age, low, high)))
        elif ages and pin['create_time'] == 0:
            # a source without a clock: the time since creation is the age the bundle arrived with plus the time it stayed here;
            # (the unchanged tree transmits no age block at all for such a bundle, which "at most one" permits)
            ages_in = [blk for blk in rin['blocks'] if blk['type'] == 7]
            if len(ages_in) == 1:
                run.stats['in.clockless_age_out'] = 1
                age_in = cbor2.loads(ages_in[0]['btsd'])
                age = cbor2.loads(ages[0]['btsd'])
                stay = (t_after - t_before) // 1000 + 1
                if not (isinstance(age, int) and isinstance(age_in, int) and age_in <= age <= age_in + stay):
                    run.viols.append(('age', 'wrong-value-clockless', '%s: age %r on the wire for a bundle without creation time that arrived with age %r and stayed at most %d ms' % (where, age, age_in, stay)))
        nums = [blk['num'] for blk in out['blocks']]
        if len(set(nums)) != len(nums):
            run.viols.append(('block-num', 'duplicate', '%s: block numbers %r' % (where, nums)))
        if out['blocks'][-1]['num'] != 1 or out['blocks'][-1]['type'] != 1:
            run.viols.append(('block-num', 'payload-not-1-last', '%s: last block is type %d number %d' % (where, out['blocks'][-1]['type'], out['blocks'][-1]['num'])))
        for blk in [pout] + out['blocks']:
            if not blk['crc_ok']:
                run.viols.append(('crc', 'invalid-type%d' % blk['crc_type'], '%s: transmitted block %s has a wrong CRC' % (where, blk.get('num', 'primary'))))
        if run.viols:
            return


def judge(run):
    return run.viols


def describe(run):
    plan = run.plan
    counters = dict(run.wld.counters)
    counters.update(run.stats)
    for item in plan['bundles']:
        types = [blk['type'] for blk in item['blocks']]
        if 6 in types:
            counters['in.prev_node'] = 1
        if any(blk['type'] == 6 and blk.get('eid') == 'NOT-AN-EID' for blk in item['blocks']):
            counters['in.prev_node_not_an_eid'] = 1
        if 10 in types:
            counters['in.hop_count'] = 1
        if types.count(10) > 1:
            counters['in.two_hop_count'] = 1
        if 7 in types:
            counters['in.age'] = 1
        if item['time'] == 0:
            counters['in.create_time_zero'] = 1
        if item.get('wide_pri') or item.get('wide_pay') or any(blk.get('wide') for blk in item['blocks']):
            counters['in.not_shortest_form'] = 1
        if any(typ not in (6, 7, 10) for typ in types):
            counters['in.unknown_ext'] = 1
        if any(blk['num'] > 255 for blk in item['blocks']):
            counters['in.large_block_num'] = 1
        if any(str(val).startswith('ipn:977000') for val in (item['source'], item['dest'], item['report_to'])):
            counters['in.ipn_three_element_eid'] = 1
    if len(plan['bundles']) > 1:
        counters['seq.multi'] = 1
    sample = dict(skew_ms=plan['skew_ms'], bundles=[dict(time=item['time'], blocks=[(blk['type'], blk['num'], blk['crc_type']) for blk in item['blocks']],
                                                         hex=encode(item).hex()[:160]) for item in plan['bundles']])
    nontrivial = any(blk['type'] in (6, 7, 10) for item in plan['bundles'] for blk in item['blocks'])
    return dict(nontrivial=nontrivial, key=bc.digest(plan), sim_us=run.wld.now, steps=run.wld.steps, capped=run.wld.capped, counters=counters, sample=sample)
