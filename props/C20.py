''' C20 - BTP-U messages round-trip and segmented transfers reassemble.
Engine E7: two real btpu agents on a simulated Ethernet plus a foreign peer. DESIGN 5/C20.
'''
from scenarios import dgram_pair
from props import bp_common as bc
from ref import btpu as refbtpu

ID = 'C20'
LEVEL = 'exploration'
RULE = ('per run an MTU (none or 40..1400) and 1-4 bundles with lengths straddling the MTU and its multiples sent between two real agents, '
        'plus foreign frames with several messages, hint lists and padding, and foreign transfers of one segment (end flag, index 0); the Ethernet (chooser) reorders, duplicates, delays (up to 2.5 s) '
        'and in a share of runs drops frames. Every frame on the wire is decoded by the reference decoder and by the repository\'s own '
        'MessageSet and re-encoded. Delivery is demanded when every segment arrived exactly once and every gap between consecutive '
        'segment arrivals of the transfer stayed below the documented receive timeout. Non-trivial: a transfer was segmented or a '
        'multi-message frame received; distinct = distinct event-history digests.')
COMPONENTS = dict(
    real=['btpu.agent.Agent (both ends)', 'btpu.messages', 'scapy (Ether, fields)', 'repo code at /repo/src working tree'],
    simulated=['GLib main contexts + clocks', 'AF_PACKET sockets on a shared Ethernet segment with drop / duplicate / reorder / delay (dsim.net)', 'D-Bus (dsim.dbusmod)'],
    stub=['psutil (interfaces of the simulated host)', 'macaddress (EUI48 value type)', 'portion (integer interval shim)', 'yaml (import only)'])
PROBES = ('xfer.segmented', 'xfer.unsegmented', 'dg.dup', 'dg.delay', 'dg.drop', 'foreign.multi_message', 'foreign.hints', 'foreign.padding', 'foreign.two_transfers_in_one_frame', 'foreign.one_segment_transfer', 'bundles.delivered',
          'timing.spread_over_timeout', 'frames.roundtrip_checked')
ASSUMPTIONS = ['delivery is required only when every inter-segment gap is below the receive timeout the code documents ("reset each time a new segment is received")',
               'the decode / re-encode clause has no schedule dimension; it is checked on every frame that crosses the simulated wire']
CHUNK = 10
BUDGET = {'quick': 30, 'thorough': 400}
RX_TIMEOUT_US = 1000000


def gen(ch, tier):
    profile = ch.choice('profile', ('clean', 'reorder', 'reorder', 'slow', 'dup', 'drop'))
    net = dict(dg_drop_64=0, dg_dup_64=0, dg_reorder_64=0, dg_latencies=(200, 1000, 5000, 50000, 400000))
    if profile in ('reorder', 'dup', 'drop'):
        net['dg_reorder_64'] = ch.choice('reo', (8, 24, 48))
    if profile == 'slow':
        net['dg_reorder_64'] = 56
        net['dg_latencies'] = (200, 300000, 700000, 1200000, 1900000, 2500000)
    if profile == 'dup':
        net['dg_dup_64'] = ch.choice('dup', (4, 16))
    if profile == 'drop':
        net['dg_drop_64'] = ch.choice('drop', (2, 8))
    mtu = ch.choice('mtu', (None, 40, 64, 100, 300, 1000, 1400))
    sends = []
    for ix in range(1 + ch.pick('nsend', 4)):
        base = mtu or 300
        kind = ch.weighted('lenk', (3, 4, 2))
        if kind == 0:
            blen = 1 + ch.pick('len.s', 30)
        elif kind == 1:
            blen = max(1, base * (1 + ch.pick('len.k', 5)) - 24 + ch.pick('len.d', 30))
        else:
            blen = 1 + ch.pick('len.m', 4000)
        if mtu is None:
            blen = min(blen, 1400)
        sends.append(dict(src=ch.choice('src', ('U1', 'U1', 'U2')), blen=blen, tag=ix + 1, t=1000 * ch.pick('t', 2000)))
    foreign = []
    for ix in range(ch.weighted('nforeign', (2, 2, 1))):
        foreign.append(dict(parts=[ch.choice('part', ('bundle', 'seg', 'seg', 'padmsg')) for _ in range(1 + ch.pick('nparts', 3))], tag=200 + ix,
                            blen=10 + ch.pick('fblen', 100), extra_hint=ch.choice('xh', (0, 1, 2, 3, 4)), pair=ch.coin('pair', 1, 3), single=ch.coin('single', 1, 3), pad=ch.coin('pad', 1, 2), t=1000 * ch.pick('ft', 2000)))
    return dict(scenario='btpu_pair', kind='btpu', profile=profile, net=net, mtu=mtu, sends=sends, foreign=foreign,
                cfg={'*': dict(mtu_default=mtu, node_id='dtn://b/')})


class Run:
    pass


def execute(plan, sched, verbose=False):
    har = dgram_pair.DgramHarness(plan, sched, verbose)
    run = Run()
    run.har = har
    run.wld = har.wld
    run.plan = plan
    run.viols = []
    run.stats = {}
    _drive(run, plan, har)
    return run


def _mac_text(raw):
    return ':'.join('%02x' % byte for byte in raw)


def _drive(run, plan, har):
    wld = har.wld
    stats = run.stats
    sent = {'U1': [], 'U2': []}
    foreign_whole = []
    foreign_seg = []
    foreign_single = []

    def do_send(item):
        dst = 'U2' if item['src'] == 'U1' else 'U1'
        body = bc.body(item['tag'], item['blen'], first=0x9F)
        ret = har.user_send(item['src'], body, {'address': _mac_text(dgram_pair.MACS[dst]), 'local_if': 'eth0'})
        if isinstance(ret, str):
            sent[dst].append(body)

    def do_foreign(item):
        body = bc.body(item['tag'], item['blen'], first=0x9F)
        sbody = bc.body(item['tag'] + 50, item['blen'] + 9, first=0x9F)
        cut = max(1, len(sbody) // 2)
        # up to four hints in one message (the agent's own messages carry at most one)
        extra = [(5, b'xy'), (6, b''), (7, b'abc'), (9, b'z')][:item['extra_hint'] if isinstance(item['extra_hint'], int) else 1] if item['extra_hint'] else []
        segs = [refbtpu.encode_segment(900 + item['tag'], 0, sbody[:cut], False, len(sbody), extra),
                refbtpu.encode_segment(900 + item['tag'], 1, sbody[cut:], True, len(sbody))]
        payload = b''
        nseg = 0
        nmsg = 0
        for part in item['parts']:
            if part == 'bundle':
                payload += refbtpu.encode_message(refbtpu.MSG_BUNDLE, body, extra)
                foreign_whole.append(body)
                nmsg += 1
            elif part == 'seg' and nseg < 2:
                payload += segs[nseg]
                nseg += 1
                nmsg += 1
            elif part == 'padmsg':
                payload += refbtpu.encode_message(refbtpu.MSG_PADDING, b'\x00' * 3)
                nmsg += 1
        if nseg == 2:
            foreign_seg.append(sbody)
        if item.get('pair'):
            # one frame that carries the first segments of two transfers nobody has seen yet, the rest in a second frame
            (body_a, body_b) = (bc.body(item['tag'] + 70, item['blen'] + 3, first=0x9F), bc.body(item['tag'] + 71, item['blen'] + 5, first=0x9F))
            (cut_a, cut_b) = (max(1, len(body_a) // 2), max(1, len(body_b) // 3))
            first = (refbtpu.encode_segment(700 + item['tag'], 0, body_a[:cut_a], False, len(body_a))
                     + refbtpu.encode_segment(800 + item['tag'], 0, body_b[:cut_b], False, len(body_b)))
            second = (refbtpu.encode_segment(800 + item['tag'], 1, body_b[cut_b:], True, len(body_b))
                      + refbtpu.encode_segment(700 + item['tag'], 1, body_a[cut_a:], True, len(body_a)))
            for part in (first, second):
                har.peer_send(refbtpu.frame(dgram_pair.MACS['U2'], dgram_pair.MACS['X'], part), 'U2')
            foreign_seg.extend([body_a, body_b])
            stats['foreign.two_transfers_in_one_frame'] = 1
        if item.get('single'):
            # a transfer that consists of one segment only: the end segment carries index 0
            body_c = bc.body(item['tag'] + 90, item['blen'] + 1, first=0x9F)
            har.peer_send(refbtpu.frame(dgram_pair.MACS['U2'], dgram_pair.MACS['X'], refbtpu.encode_segment(600 + item['tag'], 0, body_c, True, len(body_c))), 'U2')
            foreign_seg.append(body_c)
            foreign_single.append(body_c)
            stats['foreign.one_segment_transfer'] = 1
        if not payload:
            return
        if nmsg > 1:
            stats['foreign.multi_message'] = 1
        if extra:
            stats['foreign.hints'] = 1
        if item['pad']:
            stats['foreign.padding'] = 1
        har.peer_send(refbtpu.frame(dgram_pair.MACS['U2'], dgram_pair.MACS['X'], payload, pad_to=(len(payload) + 14 + 11) if item['pad'] else 0), 'U2')

    for item in plan['sends']:
        wld.at(item['t'], do_send, item)
    for item in plan['foreign']:
        wld.at(item['t'], do_foreign, item)
    har.run_until(6 * dgram_pair.SEC)
    har.settle(window_us=3 * dgram_pair.SEC)
    got = {side: har.user_pop_all(side) for side in ('U1', 'U2')}
    if har.hang:
        run.viols.append(('liveness', 'callback-hang', 'a callback never returned (watchdog)'))
        return
    if wld.capped:
        return
    # every frame on the wire: size, reference decode, repo decode + re-encode
    import btpu.messages as repo_msgs
    mtu = plan['mtu']
    per_xfer = {}
    nframes = 0
    for (seq, node, _ifname, frame, *_rest) in [(evt[0], evt[2], evt[4], evt[5]) for evt in wld.hist if evt[3] == 'eth-send']:
        payload = frame[14:]
        nframes += 1
        try:
            msgs = refbtpu.decode_messages(payload)
        except refbtpu.Malformed as err:
            run.viols.append(('codec', 'reference-rejects-frame', 'a frame sent by %s is not a valid message set: %s' % (node, err)))
            return
        if node in ('U1', 'U2') and mtu is not None and len(payload) > mtu:
            run.viols.append(('mtu', 'frame-exceeds-mtu', '%s sent a %d-octet BTP-U payload, MTU is %d' % (node, len(payload), mtu)))
            return
        try:
            pkt = repo_msgs.MessageSet(payload)
            # scapy answers bytes() of an untouched dissected packet from its cache of the original octets:
            # drop the caches so that the packet is really encoded again from its fields
            fresh = pkt.copy()
            fresh.clear_cache()
            for sub in fresh.msgs:
                sub.clear_cache()
            again = bytes(fresh)
            repo_types = [msg.msg_type for msg in pkt.msgs]
        except Exception as err:  # pylint: disable=broad-except
            run.viols.append(('codec', 'repo-cannot-decode', 'the repository decoder fails on a valid frame from %s: %s' % (node, type(err).__name__)))
            return
        if repo_types != [msg['type'] for msg in msgs]:
            run.viols.append(('codec', 'message-list-differs', 'frame from %s decodes to message types %r, reference says %r' % (node, repo_types, [msg['type'] for msg in msgs])))
            return
        trimmed = payload.rstrip(b'\x00')
        if again.rstrip(b'\x00') != trimmed:
            run.viols.append(('codec', 'reencode-differs', 'decoding then re-encoding a frame from %s changes it (%d -> %d octets)' % (node, len(trimmed), len(again))))
            return
        for (rmsg, msg) in zip(pkt.msgs, msgs):
            if rmsg.length != msg['length']:
                run.viols.append(('codec', 'declared-length', 'message length field %r vs actual %r' % (rmsg.length, msg['length'])))
                return
        if node in ('U1', 'U2'):
            for msg in msgs:
                if msg['type'] in (refbtpu.MSG_XFER_SEG, refbtpu.MSG_XFER_END):
                    per_xfer.setdefault((node, msg['xfer_num']), []).append(msg)
                    stats['xfer.segmented'] = 1
                elif msg['type'] == refbtpu.MSG_BUNDLE:
                    stats['xfer.unsegmented'] = 1
    stats['frames.roundtrip_checked'] = nframes
    # segments carry the bundle, by index
    for side in ('U1', 'U2'):
        bodies = {tid: body for (_seq, tid, body) in har.queued[side]}
        for ((node, xnum), msgs) in per_xfer.items():
            if node != side:
                continue
            body = bodies.get(str(xnum))
            msgs.sort(key=lambda msg: msg['seg_idx'])
            idxs = [msg['seg_idx'] for msg in msgs]
            if body is None or idxs != list(range(len(msgs))):
                run.viols.append(('segments', 'index-sequence', '%s transfer %r has segment indices %r' % (side, xnum, idxs)))
                return
            if b''.join(msg['data'] for msg in msgs) != body:
                run.viols.append(('segments', 'data-differs', '%s transfer %r: concatenated segment data differs from the bundle' % (side, xnum)))
                return
            if [msg['type'] for msg in msgs] != [refbtpu.MSG_XFER_SEG] * (len(msgs) - 1) + [refbtpu.MSG_XFER_END]:
                run.viols.append(('segments', 'end-marker', '%s transfer %r: message types %r' % (side, xnum, [msg['type'] for msg in msgs])))
                return
    # receivers
    arrivals = {}
    for evt in wld.hist:
        if evt[3] == 'eth-arrive':
            arrivals.setdefault(evt[2], []).append(evt[1])
    clean = plan['profile'] in ('clean', 'reorder', 'slow')
    for side in ('U1', 'U2'):
        expect = list(sent[side]) + (foreign_whole + foreign_seg if side == 'U2' else [])
        for data in got[side]:
            if data not in expect:
                kind = 'partial' if any(data in body for body in expect) else 'corrupted'
                run.viols.append(('receive', kind + '-bundle-queued', '%s queued %d octets that are not one of the bundles sent to it' % (side, len(data))))
                return
        if plan['profile'] != 'dup':
            peer = 'U2' if side == 'U1' else 'U1'
            seg_bodies = [body for (_seq, tid, body) in har.queued[peer] if (peer, int(tid)) in per_xfer] + (foreign_seg if side == 'U2' else [])
            for body in set(got[side]):
                if got[side].count(body) > expect.count(body):
                    if body in seg_bodies:
                        run.viols.append(('receive', 'duplicate-delivery-segmented', '%s queued a segmented bundle %d times' % (side, got[side].count(body))))
                        return
                    # an unsegmented bundle seen by two packet sockets of the same agent: outside the statement, counted
                    stats['probe.unsegmented_duplicate'] = 1
    if clean:
        # delivery demanded when the arrival gaps of the transfer stayed below the timeout
        recv_times = _segment_arrival_times(har)
        for side in ('U1', 'U2'):
            peer = 'U2' if side == 'U1' else 'U1'
            bodies = {tid: body for (_seq, tid, body) in har.queued[peer]}
            for (tid, body) in bodies.items():
                times = sorted(recv_times.get((side, peer, int(tid)), []))
                segmented = (peer, int(tid)) in per_xfer
                if segmented:
                    gaps = [b - a for (a, b) in zip(times, times[1:])]
                    if times and times[-1] - times[0] > RX_TIMEOUT_US:
                        stats['timing.spread_over_timeout'] = 1
                    if len(times) != len(per_xfer[(peer, int(tid))]) or any(gap >= RX_TIMEOUT_US - 50000 for gap in gaps):
                        continue
                if got[side].count(body) < 1 and body in sent[side]:
                    spread = (times[-1] - times[0]) if times else 0
                    run.viols.append(('receive', 'missing-bundle-' + ('segmented-spread-over-timeout' if segmented and spread > RX_TIMEOUT_US else ('segmented' if segmented else 'whole')),
                                      '%s never queued the %d-octet bundle %s although each segment arrived once with gaps below the receive timeout (spread %.3f s)' % (
                                          side, len(body), tid, spread / 1e6)))
                    return
        # a transfer of one segment has no gaps to time out on: its only segment arrived once, so the bundle is queued once
        for body in foreign_single:
            if got['U2'].count(body) != 1:
                run.viols.append(('receive', 'one-segment-transfer-queued-%d-times' % got['U2'].count(body),
                                  'U2 queued the %d-octet bundle of a transfer whose only segment (end flag, index 0) arrived once %d times' % (len(body), got['U2'].count(body))))
                return
    stats['bundles.delivered'] = sum(len(val) for val in got.values())
    if any(evt[3] == 'escaped-exception' for evt in wld.hist):
        stats['probe.escaped_exception'] = 1


def _segment_arrival_times(har):
    ''' {(receiver, sender, xfer_num): [arrival times of its segments]} from the recv events. '''
    out = {}
    macs = {bytes(val): key for (key, val) in dgram_pair.MACS.items()}
    pending = {}
    # pair each eth-send frame with its deliveries: arrivals are logged per receiving socket
    frames = [(evt[0], evt[2], evt[5]) for evt in har.wld.hist if evt[3] == 'eth-send']
    # the receive callback logs nothing with the data, so decode at delivery: hook recorded by the harness below
    for (when, node, frame) in getattr(har, 'frame_log', []):
        try:
            msgs = refbtpu.decode_messages(frame[14:])
        except refbtpu.Malformed:
            continue
        src = macs.get(bytes(frame[6:12]))
        for msg in msgs:
            if msg['type'] in (refbtpu.MSG_XFER_SEG, refbtpu.MSG_XFER_END):
                out.setdefault((node, src, msg['xfer_num']), []).append(when)
    del pending, frames
    return out


def judge(run):
    return run.viols


def describe(run):
    counters = dict(run.wld.counters)
    counters.update(run.stats)
    plan = run.plan
    sample = dict(profile=plan['profile'], mtu=plan['mtu'], net={key: val for (key, val) in plan['net'].items() if key != 'ifaces'}, sends=plan['sends'],
                  foreign=[item['parts'] for item in plan['foreign']], frame_sizes=[len(evt[5]) for evt in run.wld.hist if evt[3] == 'eth-send'][:40])
    nontrivial = bool(run.stats.get('xfer.segmented') or run.stats.get('foreign.multi_message'))
    return dict(nontrivial=nontrivial, key=run.wld.digest(), sim_us=run.wld.now, steps=run.wld.steps, capped=run.wld.capped, counters=counters, sample=sample)
