''' C10 - the BP agent processes each received bundle at most once and routes
by first match. Engine E5. DESIGN 5/C10.
'''
from scenarios import bp_net
from props import bp_common as bc
from ref import rfc9171

ID = 'C10'
LEVEL = 'exploration'
RULE = ('routing tables of 0-5 anchored regex entries (overlapping prefixes, catch-alls; delete / deliver / forward) and node ids in dtn: '
        'and ipn: form; receive histories of 2-24 bundles with repeats, look-alikes differing in exactly one identity component (source, '
        'time, sequence number, fragment offset, total length), fragments on non-deliver routes, bundles sourced by the node itself and '
        'bundles to its administrative endpoint, and copies damaged in transit (one payload bit, CRC mismatch) that must cause nothing and must not turn a later intact copy into a repeat; the order of arrival is permuted and duplicated by the link (chooser). A seen-set + '
        'first-match reference model predicts for every reception the exact set of probe deliveries and forwards. Non-trivial: the '
        'history contains a repeat or a look-alike; distinct = digest of (table, history).')
COMPONENTS = bc.COMPONENTS
PROBES = ('hist.repeat', 'hist.lookalike', 'hist.own_source', 'hist.admin_endpoint', 'hist.fragment', 'hist.no_route', 'act.deliver', 'act.forward', 'act.delete',
          'route.shadowed_entry', 'hist.burst', 'hist.damaged_copy', 'hist.intact_after_damaged')
ASSUMPTIONS = ['destinations avoid the endpoints the bundled applications claim (ipn:100.1, configured SAND/SAFE endpoints)',
               'payloads begin with an octet that is not a decodable SAFE PDU', 'no report flags (C19 covers reports)']
CHUNK = 25
BUDGET = {'quick': 30, 'thorough': 400}

DTN_DESTS = ['dtn://n1/app', 'dtn://n1/other/x', 'dtn://n2/app', 'dtn://far/app', 'dtn://far/deep/er', 'dtn://nowhere/']
IPN_DESTS = ['ipn:5.1', 'ipn:5.7', 'ipn:6.1', 'ipn:77.1', 'ipn:77.22', 'ipn:9.9']
# anchored patterns and, as in re.match(), patterns that only describe a prefix of the destination
DTN_PATS = ['^dtn://n1/.*$', '^dtn://n1/app$', '^dtn://far/.*$', '^dtn://far/app$', '^dtn://n2/.*$', '^dtn://.*$', '^.*$',
            'dtn://n1/', 'dtn://far', '^dtn://n1/o']
IPN_PATS = [r'^ipn:5\..*$', r'^ipn:5\.1$', r'^ipn:77\..*$', r'^ipn:77\.1$', r'^ipn:6\..*$', r'^ipn:.*$', '^.*$', r'ipn:5\.', 'ipn:77', r'^ipn:6\.']


def gen(ch, tier):
    ipn = ch.coin('ipn', 1, 3)
    node_id = 'ipn:5.0' if ipn else 'dtn://n1/'
    pats = IPN_PATS if ipn else DTN_PATS
    dests = (IPN_DESTS if ipn else DTN_DESTS) + [node_id]
    table = []
    for _ in range(ch.pick('ntable', 6)):
        table.append([ch.choice('pat', pats), ch.choice('act', ('deliver', 'forward', 'delete', 'forward', 'deliver'))])
    sources = ['dtn://src/', 'dtn://src2/', 'ipn:3.1', node_id]
    base = []
    for ix in range(1 + ch.pick('nbase', 6)):
        base.append(dict(source=ch.choice('src', sources[:3]), time=1000000 + 1000 * ch.pick('time', 3), seqno=ch.pick('seq', 3),
                         dest=ch.choice('dest', dests), frag=None, tag=ix + 1, plen=1 + ch.pick('plen', 30)))
    hist = []
    for _ in range(2 + ch.pick('nhist', 23)):
        kind = ch.weighted('hkind', (4, 4, 2, 1, 1, 1))
        item = dict(ch.choice('pick', base))
        if kind == 1:
            # look-alike: change exactly one identity component
            comp = ch.choice('comp', ('source', 'time', 'seqno', 'frag-offset', 'frag-total'))
            item['alike'] = comp
            if comp == 'source':
                item['source'] = ch.choice('src2', [src for src in sources[:3] if src != item['source']])
            elif comp == 'time':
                item['time'] += 1
            elif comp == 'seqno':
                item['seqno'] += 1
            elif comp == 'frag-offset':
                item['frag'] = [ch.pick('off', 3), 100]
            else:
                item['frag'] = [0, 100 + ch.pick('tot', 3)]
        elif kind == 2:
            item['frag'] = [ch.pick('off', 3) * 10, 100]
        elif kind == 3:
            item['source'] = node_id
        elif kind == 4:
            item['dest'] = node_id
        elif kind == 5:
            # this copy is damaged in transit (one payload bit; the block CRC no longer matches): it is not a reception of the
            # bundle at all, so it causes nothing and must not make a later intact copy count as a repeat
            item['damaged'] = 1 + ch.pick('dbit', 64)
        hist.append(item)
    return dict(scenario='bp_route', node_id=node_id, table=table, hist=hist, burst=ch.choice('burst', (1, 1, 2, 3, 5)))


def encode(item):
    flags = 0
    pri = dict(flags=flags, crc_type=2, destination=item['dest'], source=item['source'], report_to='dtn:none',
               create_time=item['time'], seqno=item['seqno'])
    data = bc.body(item['tag'], item['plen'])
    if item['frag']:
        pri['flags'] |= rfc9171.FLAG_IS_FRAGMENT
        pri['frag_offset'] = item['frag'][0]
        pri['total_adu_len'] = item['frag'][1]
    out = rfc9171.encode_bundle(pri, [dict(type=1, num=1, crc_type=1, btsd=data)])
    if item.get('damaged'):
        (lo, hi) = rfc9171.decode_bundle(out)['blocks'][-1]['btsd_range']
        pos = lo * 8 + item['damaged'] % ((hi - lo) * 8)
        arr = bytearray(out)
        arr[pos // 8] ^= 0x80 >> (pos % 8)
        out = bytes(arr)
    return out


def ident_of(item):
    base = (item['source'], item['time'], item['seqno'])
    if item['frag']:
        # offset, total length, and the fragment's own payload length (RFC 9171 bundle identity)
        base += tuple(item['frag']) + (item['plen'],)
    return base


def model_action(plan, item, seen):
    ''' Reference model: returns None (nothing) or the action name. '''
    import re
    if item.get('damaged'):
        return None
    if item['source'] == plan['node_id']:
        return None
    key = ident_of(item)
    if key in seen:
        return None
    seen.add(key)
    if item['dest'] == plan['node_id']:
        return 'deliver'
    for (pat, action) in plan['table']:
        if re.compile(pat).match(item['dest']):
            return action
    return 'noroute'


class Run:
    pass


def execute(plan, sched, verbose=False):
    nodes = {'n1': dict(node_id=plan['node_id'], rx_routes=plan['table'], tx_routes=[['.*', 'dtn://next/', None, None]])}
    har = bp_net.BpHarness(dict(nodes=nodes), sched, verbose)
    run = Run()
    run.har = har
    run.wld = har.wld
    run.plan = plan
    run.viols = []
    run.stats = {}
    try:
        _drive(run, plan, har)
    finally:
        har.close()
    return run


def _drive(run, plan, har):
    seen = set()
    stats = run.stats
    burst = max(1, plan.get('burst', 1))
    hist = list(enumerate(plan['hist']))
    if burst > 1:
        stats['hist.burst'] = 1
    for base in range(0, len(hist), burst):
        # a burst of receptions reaches the agent before its main loop runs again (several transfers out of one socket read)
        expected_fwd = []
        fwd_mark = len(har.cl_out['n1'])
        for (ix, item) in hist[base:base + burst]:
            want = model_action(plan, item, seen)
            if item['frag'] and want == 'deliver':
                # reassembly belongs to C06: keep fragments on non-deliver routes
                seen.discard(ident_of(item))
                continue
            mark = len(har.delivered['n1'])
            rec = har.receive('n1', encode(item))
            if burst == 1:
                har.settle()
            dels = har.delivered['n1'][mark:]
            where = 'reception #%d %r (model: %s)' % (ix, {key: item[key] for key in ('source', 'time', 'seqno', 'dest', 'frag')}, want)
            if want is None:
                stats['act.none'] = stats.get('act.none', 0) + 1
            else:
                stats['act.' + want] = stats.get('act.' + want, 0) + 1
            exp_del = 1 if want == 'deliver' else 0
            kind = 'repeat' if want is None and item['source'] != plan['node_id'] else ('own-source' if want is None else want)
            if item.get('damaged'):
                kind = 'damaged'
                stats['hist.damaged_copy'] = 1
            elif want is not None and any(prev.get('damaged') and ident_of(prev) == ident_of(item) for (_pix, prev) in hist[:ix]):
                kind = want + '-after-damaged-copy'
                stats['hist.intact_after_damaged'] = 1
            if len(dels) != exp_del:
                run.viols.append(('deliver', '%s-delivered-%d' % (kind, len(dels)), '%d deliveries, expected %d at %s; recv error %s' % (len(dels), exp_del, where, rec['error'])))
                return
            if dels and (dels[0]['ident'][:5] != ident_of(item)[:5] or dels[0]['payload'] != bc.body(item['tag'], item['plen'])):
                run.viols.append(('deliver', 'wrong-bundle', 'delivered %r, received %r' % (dels[0]['ident'], ident_of(item))))
                return
            if want == 'forward':
                expected_fwd.append((ix, item, kind, where, rec))
            else:
                expected_fwd.append((ix, None, kind, where, rec))
        har.settle()
        outs = har.cl_out['n1'][fwd_mark:]
        (decoded, errs) = bc.decode_outputs(outs)
        fwds = [dec for dec in decoded if not bc.is_admin(dec)]
        rpts = [dec for dec in decoded if bc.is_admin(dec)]
        wanted = [entry for entry in expected_fwd if entry[1] is not None]
        where = wanted[0][3] if wanted else (expected_fwd[0][3] if expected_fwd else 'burst at #%d' % base)
        kind = wanted[0][2] if wanted else (expected_fwd[-1][2] if expected_fwd else 'none')
        if burst == 1:
            if len(fwds) != len(wanted):
                rec = expected_fwd[0][4] if expected_fwd else {'error': None}
                run.viols.append(('forward', '%s-forwarded-%d' % (kind, len(fwds)), '%d forwards, expected %d at %s; recv error %s' % (len(fwds), len(wanted), where, rec['error'])))
                return
        elif len(fwds) != len(wanted):
            run.viols.append(('forward', 'burst-forwarded-%s' % ('fewer' if len(fwds) < len(wanted) else 'more'),
                              '%d forwards after a burst of %d receptions, expected %d (first: %s)' % (len(fwds), burst, len(wanted), where)))
            return
        if rpts or errs:
            run.viols.append(('report', kind + '-unrequested-output', 'unexpected administrative or malformed output at %s' % where))
            return
        got = sorted((rfc9171.ident(dec['primary']), dec['primary']['destination']) for dec in fwds)
        exp = sorted((ident_of(item)[:5], item['dest']) for (_ix, item, _k, _w, _r) in wanted)
        if got != exp:
            run.viols.append(('forward', 'wrong-bundle', 'forwarded %r, expected %r' % (got, exp)))
            return


def judge(run):
    return run.viols


def describe(run):
    plan = run.plan
    counters = dict(run.wld.counters)
    counters.update(run.stats)
    idents = [ident_of(item) for item in plan['hist']]
    if len(set(idents)) < len(idents):
        counters['hist.repeat'] = 1
    for item in plan['hist']:
        if item.get('alike'):
            counters['hist.lookalike'] = 1
        if item['source'] == plan['node_id']:
            counters['hist.own_source'] = 1
        if item['dest'] == plan['node_id']:
            counters['hist.admin_endpoint'] = 1
        if item['frag'] and not item.get('damaged'):
            counters['hist.fragment'] = 1
    if run.stats.get('act.noroute'):
        counters['hist.no_route'] = 1
    import re
    for (ix, (pat, _act)) in enumerate(plan['table']):
        if any(ppat in ('^.*$',) or ppat == pat for (ppat, _a) in plan['table'][:ix]):
            counters['route.shadowed_entry'] = 1
    sample = dict(node_id=plan['node_id'], table=plan['table'], hist=[[item['source'], item['time'], item['seqno'], item['dest'], item['frag']] for item in plan['hist']][:12])
    return dict(nontrivial=bool(counters.get('hist.repeat') or counters.get('hist.lookalike')), key=bc.digest((plan['node_id'], plan['table'], plan['hist'])),
                sim_us=run.wld.now, steps=run.wld.steps, capped=run.wld.capped, counters=counters, sample=sample)
