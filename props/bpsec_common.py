''' Shared machinery of the BPSec properties C03 / C12 / C16 (engine E5):
a source node applying security through its real transmit chain, a
man-in-the-middle link, and a destination node with its own key store.
'''
import cbor2

from scenarios import bp_net
from props import bp_common as bc
from ref import rfc9171, bpsec_cose

KEYS = {
    'mac256': dict(kid='mac256', k='11' * 32, alg='HMAC256', ops='mac'),
    'mac384': dict(kid='mac384', k='22' * 32, alg='HMAC384', ops='mac'),
    'mac512': dict(kid='mac512', k='33' * 32, alg='HMAC512', ops='mac'),
    'kw128': dict(kid='kw128', k='44' * 16, alg='A128KW', ops='wrap'),
    'kw256': dict(kid='kw256', k='55' * 32, alg='A256KW', ops='wrap'),
    'enc128': dict(kid='enc128', k='66' * 16, alg='A128GCM', ops='enc'),
    'enc256': dict(kid='enc256', k='77' * 32, alg='A256GCM', ops='enc'),
}
RAW_KEYS = {name.encode(): bytes.fromhex(key['k']) for (name, key) in KEYS.items()}


def wrong_key(name):
    key = dict(KEYS[name])
    key['k'] = 'ab' * (len(key['k']) // 2)
    return key


def make_world(sched, src_policy, dst_keys, accept, verbose=False, src_keys=None, extra_nodes=None, src_pki=None, dst_pki=None):
    ''' Source ``s`` (dtn://s/) applying ``src_policy`` and destination ``d``
    (dtn://d/) holding ``dst_keys``. '''
    nodes = {
        's': dict(node_id='dtn://s/', rx_routes=[], tx_routes=[['.*', 'dtn://d/', None, 'd']],
                  security=dict(keys=src_keys if src_keys is not None else list(KEYS.values()), policies=src_policy)),
        'd': dict(node_id='dtn://d/', rx_routes=[['^dtn://d/.*$', 'deliver']], tx_routes=[['.*', 'dtn://s/', None, None]],
                  accept_after_verify=accept, security=dict(keys=dst_keys, policies=[])),
    }
    if src_pki:
        nodes['s']['security']['pki'] = src_pki
    if dst_pki:
        nodes['d']['security']['pki'] = dst_pki
    if extra_nodes:
        nodes.update(extra_nodes)
    return bp_net.BpHarness(dict(nodes=nodes), sched, verbose)


def source_bundle(har, seqno, payload, ext_blocks=(), flags=0, pri_crc=0, pay_crc=0, report_to=None, dest='dtn://d/app', source=None, node='s'):
    ''' Let the real source node build, secure and transmit one bundle; returns the transmitted bytes (or None). '''
    from bp.encoding import PrimaryBlock, CanonicalBlock, Timestamp
    from bp.util import BundleContainer
    ctr = BundleContainer()
    kwargs = dict(bundle_flags=flags, destination=dest, crc_type=pri_crc, create_ts=Timestamp(dtntime=820000000000, seqno=seqno))
    if report_to:
        kwargs['report_to'] = report_to
    if source:
        # sent from a service endpoint of the node: the bundle source differs from the node ID, which is the security source
        kwargs['source'] = source
    ctr.bundle.primary = PrimaryBlock(**kwargs)
    blocks = []
    for (ix, blk) in enumerate(ext_blocks):
        if blk.get('layer') == 'hopcount':
            # built the way the agent builds its own extension blocks: a typed layer, the type code implied by the layer binding
            from bp.encoding import HopCountBlock
            blocks.append(CanonicalBlock(block_num=2 + ix, block_flags=blk.get('flags', 0), crc_type=blk.get('crc_type', 0)) / HopCountBlock(limit=30, count=2))
            continue
        blocks.append(CanonicalBlock(type_code=blk['type'], block_num=2 + ix, block_flags=blk.get('flags', 0), crc_type=blk.get('crc_type', 0), btsd=blk['btsd']))
    blocks.append(CanonicalBlock(type_code=1, block_num=1, crc_type=pay_crc, btsd=payload))
    ctr.bundle.blocks = blocks
    mark = len(har.cl_out[node])
    err = har.send(node, ctr)
    har.settle()
    outs = har.cl_out[node][mark:]
    if err or len(outs) != 1:
        return None
    return outs[0]['data']


def deliver(har, data):
    ''' Hand bytes to the destination; returns (reception record, new probe deliveries, new outputs). '''
    marks = (len(har.delivered['d']), len(har.cl_out['d']))
    rec = har.receive('d', data)
    har.settle()
    return (rec, har.delivered['d'][marks[0]:], har.cl_out['d'][marks[1]:])


def fixup_crcs(data):
    ''' MITM helper: re-encode an (altered) bundle with all CRCs recomputed so
    that the change reaches the security code. Returns None if not decodable. '''
    try:
        dec = rfc9171.decode_bundle(data)
        return rfc9171.reencode(dec)
    except (rfc9171.Malformed, Exception):  # pylint: disable=broad-except
        return None


def sec_blocks(dec, btype):
    return [blk for blk in dec['blocks'] if blk['type'] == btype]


def describe_change(orig, alt):
    ''' Semantic diff of two reference-decoded bundles containing security
    blocks. Returns a set of change labels. '''
    out = set()
    if orig['primary']['raw'] != alt['primary']['raw']:
        po = {key: val for (key, val) in orig['primary'].items() if key not in ('raw', 'range', 'crc', 'crc_ok')}
        pa = {key: val for (key, val) in alt['primary'].items() if key not in ('raw', 'range', 'crc', 'crc_ok')}
        out.add('primary' if po != pa else 'primary-crc-only')
    onum = {blk['num']: blk for blk in orig['blocks']}
    anum = {blk['num']: blk for blk in alt['blocks']}
    if [blk['num'] for blk in orig['blocks']] != [blk['num'] for blk in alt['blocks']]:
        out.add('block-set')
    for (num, blk) in onum.items():
        other = anum.get(num)
        if other is None:
            continue
        if (blk['type'], blk['num'], blk['flags']) != (other['type'], other['num'], other['flags']):
            out.add('meta:%d' % num)
        if blk['crc_type'] != other['crc_type']:
            out.add('crctype:%d' % num)
        if blk['btsd'] != other['btsd']:
            if blk['type'] in (rfc9171.TYPE_BIB, rfc9171.TYPE_BCB):
                out |= set('asb:%d:%s' % (num, label) for label in _asb_diff(blk['btsd'], other['btsd']))
            else:
                out.add('btsd:%d' % num)
    return out


def _asb_diff(orig_btsd, alt_btsd):
    try:
        one = bpsec_cose.parse_asb(orig_btsd)
        two = bpsec_cose.parse_asb(alt_btsd)
    except bpsec_cose.AsbError:
        return {'malformed'}
    out = set()
    for fld in ('targets', 'context_id', 'flags', 'source'):
        if one[fld] != two[fld]:
            out.add(fld)
    p1 = dict(one['params'])
    p2 = dict(two['params'])
    if len(one['params']) != len(two['params']) or set(p1) != set(p2):
        out.add('param-set')
    else:
        for pid in p1:
            if p1[pid] != p2[pid]:
                out.add({5: 'scope', 3: 'addl-protected', 4: 'addl-unprotected'}.get(pid, 'param-other'))
    if len(one['results']) != len(two['results']):
        out.add('result-set')
    else:
        for (res1, res2) in zip(one['results'], two['results']):
            if [rid for (rid, _v) in res1] != [rid for (rid, _v) in res2]:
                out.add('result-set')
                continue
            for ((_r1, val1), (_r2, val2)) in zip(res1, res2):
                if val1 == val2:
                    continue
                try:
                    msg1 = cbor2.loads(val1)
                    msg2 = cbor2.loads(val2)
                    if not (isinstance(msg2, list) and len(msg1) == len(msg2)):
                        raise ValueError
                except Exception:  # pylint: disable=broad-except
                    out.add('cose-malformed')
                    continue
                if msg1[0] != msg2[0]:
                    out.add('cose-protected')
                if msg1[1] != msg2[1]:
                    out.add('cose-unprotected')
                if msg1[2] != msg2[2]:
                    out.add('cose-payload')
                if len(msg1) > 3 and msg1[3] != msg2[3]:
                    out.add('cose-tag')
                if len(msg1) > 4 and msg1[4] != msg2[4]:
                    out.add('cose-recipients')
    return out or {'encoding-only'}


def policy_targets_covered(dec, sec_type, target_types):
    """ Source-side clause: the security blocks the source produced must name exactly the blocks its policy selects (every
    block whose type is in ``target_types``), each once. Returns None or a description of the difference. """
    want = sorted(blk['num'] for blk in dec['blocks'] if blk['type'] in target_types)
    got = []
    for blk in sec_blocks(dec, sec_type):
        got.extend(bpsec_cose.parse_asb(blk['btsd'])['targets'])
    if sorted(got) != want:
        return 'policy selects blocks %r, the security blocks on the wire name %r' % (want, got)
    return None
