''' C05 - BP fragmentation keeps every fragment within the route MTU and loses
nothing. Engine E5 (source and relay roles). DESIGN 5/C05.
'''
import cbor2

from scenarios import bp_net
from props import bp_common as bc
from ref import rfc9171

ID = 'C05'
LEVEL = 'exploration'
RULE = ('per case 1-3 send requests (source role through Agent.send_bundle, or relay role through reception + forward route) with payload '
        'lengths and MTUs straddling CBOR head boundaries (23/24, 255/256, 65535/65536), CRC types 0/1/2, 0-3 extension blocks with and '
        'without the replicate flag, flags do-not-fragment / is-fragment, BIB policy on or off; a twin node without MTU yields the '
        'unfragmented encoding for comparison. Fragments leave through idle callbacks interleaved by the scheduler. Non-trivial: the '
        'unfragmented encoding exceeds the MTU; distinct = digest of the request descriptors.')
COMPONENTS = bc.COMPONENTS
PROBES = ('case.fragmented', 'case.fits', 'case.no_fragment_flag', 'case.is_fragment', 'case.impossible', 'case.relay', 'case.with_bib', 'case.replicate_block', 'case.mtu_just_below_size', 'case.report', 'case.report_fragmented',
          'frag.count_ge_3')
ASSUMPTIONS = ['MTU means encoded bundle length', 'a do-not-fragment bundle larger than the MTU is, per the statement, sent unchanged']
CHUNK = 15
BUDGET = {'quick': 40, 'thorough': 600}


def gen(ch, tier):
    reqs = []
    for rix in range(1 + ch.weighted('nreq', (4, 2, 1))):
        plen = bc.boundary_len(ch, 'plen') if ch.coin('big', 1, 3) else ch.choice('pl', (0, 1, 23, 24, 100, 255, 256, 300, 1000))
        if tier == 'quick':
            plen = min(plen, 3000)
        head = 90
        mtu_kind = ch.weighted('mtuk', (3, 3, 2, 1, 1))
        if mtu_kind == 0:
            mtu = head + 30 + ch.pick('mtu.s', 200)
        elif mtu_kind == 1:
            mtu = max(60, (plen + head) // (2 + ch.pick('mtu.div', 4)) + ch.pick('mtu.d', 5))
        elif mtu_kind == 2:
            mtu = ch.choice('mtu.b', (254, 255, 256, 257, 280, 65535, 65536))
        elif mtu_kind == 3:
            mtu = 20 + ch.pick('mtu.tiny', 80)     # often impossible
        elif mtu_kind == 4 and ch.coin('mtu.rel', 1, 2):
            # just below (or at) the exact unfragmented size, which a preliminary run measures
            mtu = None
        else:
            mtu = plen + head + 100                  # fits
        blocks = []
        for bix in range(ch.weighted('next', (3, 3, 2, 1))):
            blocks.append(dict(type=ch.choice('bt', (192, 193, 7)), flags=ch.choice('bf', (0, 1, 1, 0x11, 0x03, 0x10)), crc_type=ch.pick('bc', 3),
                               blen=ch.choice('bl', (1, 5, 23, 24, 60))))
        mtu_rel = None
        if mtu is None:
            mtu_rel = -ch.pick('mtu.relv', 10)
            mtu = plen + head
        reqs.append(dict(role=ch.choice('role', ('source', 'source', 'relay')), plen=plen, mtu=mtu, mtu_rel=mtu_rel, tag=rix + 1,
                         flags=ch.choice('flags', (0, 0, 0, rfc9171.FLAG_NO_FRAGMENT, rfc9171.FLAG_IS_FRAGMENT)),
                         pri_crc=ch.pick('pc', 3), pay_crc=ch.pick('yc', 3), blocks=blocks,
                         dest=ch.choice('dst', ('dtn://far/app', 'ipn:77.1')),
                         ctime=ch.choice('ctime', (820000000000, 820000000000, 0)), frag_offset=ch.choice('foff', (10, 0))))
    bib = ch.coin('bib', 1, 4)
    report = None
    if ch.coin('rpt', 1, 4):
        # reception / delivery / (0x40: with status time) reports requested by a bundle whose report-to lies behind a small MTU
        report = dict(mtu=60 + ch.pick('rpt.mtu', 90), flags=ch.choice('rpt.flags', (0x4000, 0x4000 | 0x20000, 0x4000 | 0x40, 0x20000)),
                      plen=ch.choice('rpt.plen', (1, 30)), src=ch.choice('rpt.src', ('dtn://src/', 'ipn:977000.3.1', 'dtn://a-rather-long-source-node-name/svc')))
    return dict(scenario='bp_fragment', reqs=reqs, bib=bib, report=report)


def _security(plan):
    if not plan['bib']:
        return None
    return dict(keys=[dict(kid='k1', k='00' * 32, alg='HMAC256', ops='mac')],
                policies=[dict(src='.*', dst='.*', targets=[1], ops=[dict(type='bib', kid='k1')])])


def _ext_btsd(blk, ix):
    if blk['type'] == 7:
        return cbor2.dumps(1000)
    return bc.body(500 + ix, blk['blen'], first=0x41)


def _make_ctr(req):
    ''' Source request as an application would build it. '''
    from bp.encoding import PrimaryBlock, CanonicalBlock
    from bp.util import BundleContainer
    ctr = BundleContainer()
    kwargs = dict(bundle_flags=req['flags'], destination=req['dest'], crc_type=req['pri_crc'])
    if req['flags'] & rfc9171.FLAG_IS_FRAGMENT:
        kwargs.update(fragment_offset=10, total_app_data_len=req['plen'] + 20)
    ctr.bundle.primary = PrimaryBlock(**kwargs)
    blocks = []
    for (ix, blk) in enumerate(req['blocks']):
        blocks.append(CanonicalBlock(type_code=blk['type'], block_num=2 + ix, block_flags=blk['flags'], crc_type=blk['crc_type'], btsd=_ext_btsd(blk, ix)))
    blocks.append(CanonicalBlock(type_code=1, block_num=1, crc_type=req['pay_crc'], btsd=bc.body(req['tag'], req['plen'])))
    ctr.bundle.blocks = blocks
    return ctr


def _relay_bytes(req):
    pri = dict(flags=req['flags'], crc_type=req['pri_crc'], destination=req['dest'], source='dtn://src/', report_to='dtn:none',
               create_time=req.get('ctime', 820000000000), seqno=req['tag'], lifetime=3600000)
    if req['flags'] & rfc9171.FLAG_IS_FRAGMENT:
        pri.update(frag_offset=req.get('frag_offset', 10), total_adu_len=req['plen'] + 20)
    blocks = [dict(type=blk['type'], num=2 + ix, flags=blk['flags'], crc_type=blk['crc_type'], btsd=_ext_btsd(blk, ix)) for (ix, blk) in enumerate(req['blocks'])]
    blocks.append(dict(type=1, num=1, flags=0, crc_type=req['pay_crc'], btsd=bc.body(req['tag'], req['plen'])))
    return rfc9171.encode_bundle(pri, blocks)


class Run:
    pass


def _measure(plan, req):
    ''' Unfragmented encoded size of one request, from a throw-away node without MTU. '''
    from dsim.world import Chooser
    nodes = {'u': dict(node_id='dtn://n1/', rx_routes=[['.*', 'forward']], tx_routes=[['.*', 'dtn://next/', None, None]], security=_security(plan))}
    har = bp_net.BpHarness(dict(nodes=nodes), Chooser(0))
    try:
        if req['role'] == 'source':
            har.send('u', _make_ctr(req))
        else:
            har.receive('u', _relay_bytes(req))
        har.settle()
        outs = har.cl_out['u']
        return len(outs[0]['data']) if len(outs) == 1 else None
    finally:
        har.close()


def execute(plan, sched, verbose=False):
    if any(req.get('mtu_rel') is not None for req in plan['reqs']):
        reqs = []
        for req in plan['reqs']:
            req = dict(req)
            if req.get('mtu_rel') is not None:
                size = _measure(plan, req)
                if size is not None:
                    req['mtu'] = max(20, size + req['mtu_rel'])
            reqs.append(req)
        plan = dict(plan, reqs=reqs)
    sec = _security(plan)
    nodes = {}
    for (ix, req) in enumerate(plan['reqs']):
        # twin without MTU and the node under test, one pair per request so that requests do not share timestamps
        nodes['u%d' % ix] = dict(node_id='dtn://n1/', rx_routes=[['.*', 'forward']], tx_routes=[['.*', 'dtn://next/', None, None]], security=sec)
        nodes['m%d' % ix] = dict(node_id='dtn://n1/', rx_routes=[['.*', 'forward']], tx_routes=[['.*', 'dtn://next/', req['mtu'], None]], security=sec)
    if plan.get('report'):
        # a node whose own status reports have to travel over a small-MTU route
        nodes['r'] = dict(node_id='dtn://n1/', rx_routes=[['^dtn://n1/.*$', 'deliver']],
                          tx_routes=[['^dtn://rpt/.*$', 'dtn://rpt/', plan['report']['mtu'], None], ['.*', 'dtn://next/', None, None]])
    har = bp_net.BpHarness(dict(nodes=nodes), sched, verbose)
    run = Run()
    run.har = har
    run.wld = har.wld
    run.plan = plan
    run.viols = []
    run.stats = {}
    try:
        _drive(run, plan, har)
        if plan.get('report') and not run.viols:
            _drive_report(run, plan['report'], har)
    finally:
        har.close()
    return run


def _drive(run, plan, har):
    stats = run.stats
    # issue all requests first (interleaving of the idle callbacks of different nodes is the scheduler's)
    for (ix, req) in enumerate(plan['reqs']):
        for name in ('u%d' % ix, 'm%d' % ix):
            if req['role'] == 'source':
                har.send(name, _make_ctr(req))
            else:
                har.receive(name, _relay_bytes(req))
    har.settle()
    for (ix, req) in enumerate(plan['reqs']):
        where = 'request #%d (%s, payload %d, mtu %d, flags 0x%x)' % (ix, req['role'], req['plen'], req['mtu'], req['flags'])
        (udec, uerr) = bc.decode_outputs(har.cl_out['u%d' % ix])
        udec = [dec for dec in udec if not bc.is_admin(dec)]
        if uerr or len(udec) != 1:
            # the twin must produce exactly the unfragmented bundle; otherwise there is nothing to compare with
            stats['case.twin_failed'] = stats.get('case.twin_failed', 0) + 1
            continue
        ref = udec[0]
        usize = ref['size']
        outs = har.cl_out['m%d' % ix]
        (mdec, merr) = bc.decode_outputs(outs)
        if merr:
            run.viols.append(('wellformed', 'undecodable-output', '%s: %s' % (where, merr[0][1])))
            continue
        mdec = [dec for dec in mdec if not bc.is_admin(dec)]
        may_fragment = not (req['flags'] & (rfc9171.FLAG_NO_FRAGMENT | rfc9171.FLAG_IS_FRAGMENT))
        if req['role'] == 'relay':
            stats['case.relay'] = 1
        if req.get('mtu_rel') is not None and 0 < usize - req['mtu'] <= 9:
            stats['case.mtu_just_below_size'] = 1
        if plan['bib']:
            stats['case.with_bib'] = 1
        if any(blk['flags'] & 1 for blk in req['blocks']):
            stats['case.replicate_block'] = 1
        if usize <= req['mtu'] or not may_fragment:
            key = 'case.fits' if usize <= req['mtu'] else ('case.no_fragment_flag' if req['flags'] & rfc9171.FLAG_NO_FRAGMENT else 'case.is_fragment')
            stats[key] = 1
            if len(mdec) != 1 or mdec[0]['rec']['data'] != ref['rec']['data']:
                run.viols.append(('unchanged', key[5:] + ('-count-%d' % len(mdec) if len(mdec) != 1 else '-altered'),
                                  '%s: expected the unfragmented %d-octet encoding unchanged, got %d bundle(s) of sizes %r' % (
                                      where, usize, len(mdec), [dec['size'] for dec in mdec])))
            continue
        # must be fragmented (or impossible)
        over = [dec['size'] for dec in mdec if dec['size'] > req['mtu']]
        if over:
            kind = 'with-bib' if plan['bib'] else ('relay' if req['role'] == 'relay' else 'source')
            whole = any(not dec['primary']['flags'] & rfc9171.FLAG_IS_FRAGMENT for dec in mdec)
            run.viols.append(('oversize', '%s-%s' % (kind, 'unfragmented' if whole else 'fragment'),
                              '%s: transmitted sizes %r exceed the MTU (unfragmented size %d)' % (where, over, usize)))
            continue
        if not mdec:
            stats['case.impossible'] = stats.get('case.impossible', 0) + 1
            # nothing transmitted: allowed only when fragmentation is impossible, i.e. not even one payload octet fits
            first_overhead = usize - len(rfc9171.payload(ref))
            # room for the two fragment fields and the payload head, each as wide as the encoded payload length (what a
            # sender that sizes conservatively reserves), plus a little: below that, declining to fragment is not a loss
            plen_enc = len(cbor2.dumps(len(rfc9171.payload(ref))))
            if first_overhead + 3 * plen_enc + 3 < req['mtu'] and len(rfc9171.payload(ref)) > 0:
                run.viols.append(('lost', 'nothing-sent', '%s: nothing was transmitted although non-payload size %d leaves room within the MTU' % (where, first_overhead)))
            continue
        stats['case.fragmented'] = 1
        if len(mdec) >= 3:
            stats['frag.count_ge_3'] = 1
        body = rfc9171.payload(ref)
        pieces = []
        for dec in mdec:
            pri = dec['primary']
            if not pri['flags'] & rfc9171.FLAG_IS_FRAGMENT:
                run.viols.append(('fragment-fields', 'flag-missing', '%s: a transmitted piece lacks the fragment flag' % where))
                break
            for fld in ('destination', 'source', 'report_to', 'create_time', 'seqno', 'lifetime', 'version'):
                if pri[fld] != ref['primary'][fld]:
                    run.viols.append(('fragment-fields', fld, '%s: fragment %s %r differs from the original %r' % (where, fld, pri[fld], ref['primary'][fld])))
            if pri['flags'] & ~rfc9171.FLAG_IS_FRAGMENT != ref['primary']['flags']:
                run.viols.append(('fragment-fields', 'flags', '%s: fragment flags 0x%x vs original 0x%x' % (where, pri['flags'], ref['primary']['flags'])))
            if pri['total_adu_len'] != len(body):
                run.viols.append(('fragment-fields', 'total-length', '%s: total length %r, payload is %d' % (where, pri['total_adu_len'], len(body))))
            pieces.append((pri['frag_offset'], rfc9171.payload(dec), dec))
            for blk in [pri] + dec['blocks']:
                if not blk['crc_ok']:
                    run.viols.append(('crc', 'fragment-crc', '%s: fragment block %s has a wrong CRC' % (where, blk.get('num', 'primary'))))
        else:
            pieces.sort(key=lambda item: item[0])
            pos = 0
            okay = True
            for (off, data, _dec) in pieces:
                if off != pos:
                    run.viols.append(('tiling', 'gap' if off > pos else 'overlap', '%s: fragment at offset %d, expected %d' % (where, off, pos)))
                    okay = False
                    break
                if len(data) == 0:
                    run.viols.append(('tiling', 'empty-fragment', '%s: fragment at offset %d carries no payload' % (where, off)))
                    okay = False
                    break
                pos += len(data)
            if okay and pos != len(body):
                run.viols.append(('tiling', 'incomplete', '%s: fragments cover %d of %d octets' % (where, pos, len(body))))
            elif okay and b''.join(data for (_o, data, _d) in pieces) != body:
                run.viols.append(('tiling', 'payload-altered', '%s: concatenated fragment payloads differ from the original' % where))
            # extension blocks
            ref_ext = [(blk['type'], blk['flags'], blk['btsd']) for blk in ref['blocks'][:-1]]
            for (off, _data, dec) in pieces:
                got = [(blk['type'], blk['flags'], blk['btsd']) for blk in dec['blocks'][:-1]]
                want = ref_ext if off == 0 else [item for item in ref_ext if item[1] & rfc9171.BLK_REPLICATE]
                if sorted(got) != sorted(want):
                    kind = 'first' if off == 0 else 'later'
                    run.viols.append(('ext-blocks', kind + ('-with-bib' if plan['bib'] else ''), '%s: fragment at offset %d carries block types %r, expected %r' % (
                        where, off, [item[0] for item in got], [item[0] for item in want])))
                    break


def _drive_report(run, rpt, har):
    ''' The status reports a node generates are bundles like any other: over a route with an MTU they leave within it, as
    fragments that tile the report, or not at all when nothing fits. '''
    pri = dict(flags=rpt['flags'], crc_type=1, destination='dtn://n1/app', source=rpt['src'], report_to='dtn://rpt/collector',
               create_time=820000000000, seqno=77, lifetime=3600000)
    data = rfc9171.encode_bundle(pri, [dict(type=1, num=1, flags=0, crc_type=0, btsd=bc.body(99, rpt['plen']))])
    har.receive('r', data)
    har.settle()
    (decoded, errs) = bc.decode_outputs(har.cl_out['r'])
    where = 'status report over a route with MTU %d (subject flags 0x%x, source %s)' % (rpt['mtu'], rpt['flags'], rpt['src'])
    if errs:
        run.viols.append(('wellformed', 'undecodable-output', '%s: %s' % (where, errs[0][1])))
        return
    run.stats['case.report'] = 1
    over = [dec['size'] for dec in decoded if dec['size'] > rpt['mtu']]
    if over:
        whole = any(not dec['primary']['flags'] & rfc9171.FLAG_IS_FRAGMENT for dec in decoded)
        run.viols.append(('oversize', 'report-%s' % ('unfragmented' if whole else 'fragment'), '%s: transmitted sizes %r exceed the MTU' % (where, over)))
        return
    frags = [dec for dec in decoded if dec['primary']['flags'] & rfc9171.FLAG_IS_FRAGMENT]
    if frags:
        run.stats['case.report_fragmented'] = 1
        groups = {}
        for dec in frags:
            groups.setdefault(rfc9171.ident(dec['primary'])[:3], []).append(dec)
        for (key, group) in sorted(groups.items()):
            group.sort(key=lambda dec: dec['primary']['frag_offset'])
            pos = 0
            total = group[0]['primary']['total_adu_len']
            for dec in group:
                if dec['primary']['frag_offset'] != pos or dec['primary']['total_adu_len'] != total or not rfc9171.payload(dec):
                    run.viols.append(('tiling', 'report-fragments', '%s: fragment offsets %r of total %r do not tile the report' % (
                        where, [(item['primary']['frag_offset'], len(rfc9171.payload(item))) for item in group], total)))
                    return
                pos += len(rfc9171.payload(dec))
            if pos != total:
                run.viols.append(('tiling', 'report-incomplete', '%s: report fragments cover %d of %d octets' % (where, pos, total)))
                return


def judge(run):
    return run.viols


def describe(run):
    plan = run.plan
    counters = dict(run.wld.counters)
    counters.update(run.stats)
    sample = dict(bib=plan['bib'], reqs=[{key: req[key] for key in ('role', 'plen', 'mtu', 'flags', 'pri_crc', 'pay_crc', 'blocks')} for req in plan['reqs']],
                  sizes={name: [len(rec['data']) for rec in recs] for (name, recs) in run.har.cl_out.items()})
    return dict(nontrivial=bool(run.stats.get('case.fragmented') or run.stats.get('case.impossible')), key=bc.digest(plan), sim_us=run.wld.now, steps=run.wld.steps,
                capped=run.wld.capped, counters=counters, sample=sample)
