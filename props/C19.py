''' C19 - status reports are sent exactly when requested and say what
happened. Engine E5. DESIGN 5/C19.
'''
from scenarios import bp_net
from props import bp_common as bc
from ref import rfc9171

ID = 'C19'
LEVEL = 'exploration'
RULE = ('per case 1-4 received bundles, each with one of the 2^5 combinations of report-request flags (reception, forwarding, delivery, '
        'deletion, status time), report-to in {dtn:none, another endpoint} and an outcome in {deliver, forward, forward with fragmentation, forward over a route whose MTU nothing fits, forward over a convergence layer that raises on send, '
        'delete by route, no route, security failure (BIB with a key the node lacks), duplicate}; administrative bundles leaving the node '
        'are decoded by the reference decoder and matched to their subject. Non-trivial: at least one report flag set with a report-to '
        'endpoint; distinct = digest of the case descriptors.')
COMPONENTS = bc.COMPONENTS
PROBES = ('out.deliver', 'out.forward', 'out.forward-frag', 'out.forward-impossible', 'out.forward-cl-error', 'out.forward-lookalike', 'out.deliver-fragments', 'out.delete', 'out.noroute', 'out.secfail', 'out.duplicate', 'rpt.seen', 'rpt.with_time', 'rpt.fragmented',
          'probe.requested_but_missing')
ASSUMPTIONS = ['a transmit route towards the report-to endpoint always exists', 'the statement is read as "only if": a missing report is counted as a probe, not a violation']
CHUNK = 25
BUDGET = {'quick': 30, 'thorough': 400}

FLAG_OF = {'received': rfc9171.FLAG_RPT_RECEPTION, 'forwarded': rfc9171.FLAG_RPT_FORWARD, 'delivered': rfc9171.FLAG_RPT_DELIVERY,
           'deleted': rfc9171.FLAG_RPT_DELETION}
OCCURS = {
    'deliver': {'received', 'delivered'},
    'forward': {'received', 'forwarded'},
    'forward-frag': {'received', 'forwarded'},
    'forward-impossible': {'received', 'deleted'},
    'forward-cl-error': {'received', 'deleted'},
    'forward-lookalike': {'received', 'forwarded'},
    'deliver-fragments': {'received', 'delivered'},
    'delete': {'received', 'deleted'},
    'noroute': {'received'},
    'secfail': {'received', 'deleted'},
    'duplicate': set(),
}
DEST = {'deliver': 'dtn://n1/app', 'forward': 'dtn://far/app', 'forward-frag': 'dtn://mtu/app', 'forward-impossible': 'dtn://tiny/app', 'forward-cl-error': 'dtn://broken/app', 'forward-lookalike': 'dtn://n10/app', 'deliver-fragments': 'dtn://n1/app', 'delete': 'dtn://drop/app', 'noroute': 'dtn://nowhere/app',
        'secfail': 'dtn://n1/app', 'duplicate': 'dtn://n1/app'}


def gen(ch, tier):
    cases = []
    for cix in range(1 + ch.pick('ncase', 4)):
        flags = 0
        for bit in (rfc9171.FLAG_RPT_RECEPTION, rfc9171.FLAG_RPT_FORWARD, rfc9171.FLAG_RPT_DELIVERY, rfc9171.FLAG_RPT_DELETION, rfc9171.FLAG_STATUS_TIME):
            if ch.coin('flag', 1, 2):
                flags |= bit
        cases.append(dict(outcome=ch.choice('outcome', ('deliver', 'deliver-fragments', 'forward', 'forward-frag', 'forward-lookalike', 'forward-impossible', 'forward-cl-error', 'delete', 'noroute', 'secfail', 'duplicate')),
                          flags=flags, report_to=ch.choice('rpt', ('dtn://rpt/', 'dtn://rpt/', 'dtn:none', 'ipn:9.1', 'dtn://rsmall/')),
                          source=ch.choice('src', ('dtn://src/', 'ipn:3.1', 'ipn:977000.3.1')), seqno=cix, plen=ch.choice('plen', (5, 40, 400)), tag=cix + 1,
                          crc=ch.choice('crc', (1, 2))))
    return dict(scenario='bp_reports', cases=cases)


def encode(case, bib=False):
    pri = dict(flags=case['flags'], crc_type=case['crc'], destination=DEST[case['outcome']], source=case['source'], report_to=case['report_to'],
               create_time=820000000000, seqno=case['seqno'], lifetime=3600000)
    plen = case['plen'] if case['outcome'] != 'forward-frag' else 600
    blocks = []
    if case['outcome'] == 'secfail':
        from ref import bpsec_cose
        blocks.append(bpsec_cose.make_bib(pri, dict(type=1, num=1, flags=0, btsd=bc.body(case['tag'], plen)), key=b'\x11' * 32, kid=b'unknown-key', num=2))
    blocks.append(dict(type=1, num=1, flags=0, crc_type=case['crc'], btsd=bc.body(case['tag'], plen)))
    return rfc9171.encode_bundle(pri, blocks)


class Run:
    pass


def execute(plan, sched, verbose=False):
    nodes = {'n1': dict(node_id='dtn://n1/',
                        rx_routes=[['^dtn://n1/.*$', 'deliver'], ['^dtn://far/.*$', 'forward'], ['^dtn://mtu/.*$', 'forward'], ['^dtn://tiny/.*$', 'forward'], ['^dtn://broken/.*$', 'forward'], ['^dtn://n10/.*$', 'forward'], ['^dtn://drop/.*$', 'delete']],
                        tx_routes=[['^dtn://rsmall/.*$', 'dtn://next/', 90, None], ['^dtn://mtu/.*$', 'dtn://next/', 300, None], ['^dtn://tiny/.*$', 'dtn://next/', 30, None], ['^dtn://broken/.*$', 'dtn://dead/', None, 'FAIL'], ['.*', 'dtn://next/', None, None]])}
    har = bp_net.BpHarness(dict(nodes=nodes), sched, verbose)
    run = Run()
    run.har = har
    run.wld = har.wld
    run.plan = plan
    run.viols = []
    run.stats = {}
    try:
        _drive(run, plan, har)
    finally:
        har.close()
    return run


def _drive(run, plan, har):
    stats = run.stats
    for (cix, case) in enumerate(plan['cases']):
        data = encode(case)
        if case['outcome'] == 'duplicate':
            # first copy without any report request, then the judged copy with the same identity
            first = dict(case, flags=0, outcome='deliver')
            har.receive('n1', encode(first))
            har.settle()
        mark = len(har.cl_out['n1'])
        har.advance(1000 * (1 + cix))
        if case['outcome'] == 'deliver-fragments':
            # the bundle arrives as two fragments: while the second is missing nothing has been delivered
            pri = dict(flags=case['flags'], crc_type=case['crc'], destination=DEST[case['outcome']], source=case['source'], report_to=case['report_to'],
                       create_time=820000000000, seqno=case['seqno'], lifetime=3600000)
            body = bc.body(case['tag'], max(2, case['plen']))
            frags = rfc9171.fragment(pri, [dict(type=1, num=1, flags=0, crc_type=case['crc'], btsd=body)], [len(body) // 2])
            har.receive('n1', frags[0])
            har.settle()
            (early, _errs) = bc.decode_outputs(har.cl_out['n1'][mark:])
            for rpt in early:
                if bc.is_admin(rpt):
                    try:
                        body_rpt = rfc9171.decode_status_report(rfc9171.payload(rpt))
                    except rfc9171.Malformed:
                        continue
                    if 'delivered' in body_rpt['asserted']:
                        run.viols.append(('assertion', 'delivered-before-complete', 'case #%d: a report asserts delivery after the first of two fragments' % cix))
                        return
            mark = len(har.cl_out['n1'])
            data = frags[1]
        rec = har.receive('n1', data)
        har.settle()
        outs = har.cl_out['n1'][mark:]
        (decoded, errs) = bc.decode_outputs(outs)
        where = 'case #%d (%s, flags 0x%x, report-to %s)' % (cix, case['outcome'], case['flags'], case['report_to'])
        stats['out.' + case['outcome']] = 1
        if errs:
            run.viols.append(('wellformed', 'undecodable-output', '%s: %s' % (where, errs[0][1])))
            return
        reports = [dec for dec in decoded if bc.is_admin(dec)]
        others = [dec for dec in decoded if not bc.is_admin(dec)]
        # a report that does not fit the MTU of the route to the report-to endpoint leaves as fragments: judge the reassembled report,
        # and each piece leaves once
        pieces = {}
        whole = []
        for rpt in reports:
            rpri = rpt['primary']
            if not rpri['flags'] & rfc9171.FLAG_IS_FRAGMENT:
                whole.append(rpt)
                continue
            stats['rpt.fragmented'] = 1
            slot = pieces.setdefault((rpri['source'], rpri['create_time'], rpri['seqno'], rpri['total_adu_len']), {})
            if rpri['frag_offset'] in slot:
                run.viols.append(('duplicate', 'report-fragment-repeated', '%s: the fragment at offset %d of one status report left the node more than once (%d administrative bundles for one processed bundle)' % (
                    where, rpri['frag_offset'], len(reports))))
                return
            slot[rpri['frag_offset']] = rpt
        for (rkey, slot) in pieces.items():
            data = bytearray(rkey[3])
            covered = 0
            for (off, rpt) in sorted(slot.items()):
                part = rfc9171.payload(rpt)
                data[off:off + len(part)] = part
                covered += len(part)
            if covered != rkey[3] or len(data) != rkey[3]:
                run.viols.append(('content', 'report-fragments-incomplete', '%s: the fragments of a status report cover %d of %d octets' % (where, covered, rkey[3])))
                return
            first = slot[min(slot)]
            whole.append(dict(first, blocks=[dict(blk, btsd=bytes(data)) if blk['type'] == 1 else blk for blk in first['blocks']]))
        reports = whole
        requested = set(name for (name, bit) in FLAG_OF.items() if case['flags'] & bit)
        occurred = OCCURS[case['outcome']]
        allowed = requested & occurred if case['report_to'] != 'dtn:none' else set()
        if case['outcome'] == 'forward-impossible' and others:
            run.viols.append(('setup', 'impossible-forward-sent', '%s: something left the node although nothing fits the 30-octet MTU' % where))
            return
        if case['outcome'] == 'forward-cl-error' and others:
            run.viols.append(('setup', 'failed-forward-sent', '%s: something left the node although the convergence layer refused it' % where))
            return
        if case['outcome'] in ('forward', 'forward-frag', 'forward-lookalike') and not others:
            run.viols.append(('setup', 'not-forwarded', '%s: the bundle did not leave the node at all (recv error %s, actions %s)' % (where, rec['error'], rec['actions'])))
            return
        if not reports:
            if allowed:
                stats['probe.requested_but_missing'] = stats.get('probe.requested_but_missing', 0) + 1
            continue
        stats['rpt.seen'] = stats.get('rpt.seen', 0) + len(reports)
        asserted_all = set()
        seen_sigs = set()
        for rpt in reports:
            pri = rpt['primary']
            try:
                body = rfc9171.decode_status_report(rfc9171.payload(rpt))
            except rfc9171.Malformed as err:
                run.viols.append(('content', 'undecodable-report', '%s: %s' % (where, err)))
                return
            if not allowed:
                why = 'report-to-none' if case['report_to'] == 'dtn:none' else ('nothing-requested' if not requested else 'requested-action-did-not-occur')
                run.viols.append(('unrequested', why, '%s: a status report asserting %s was sent' % (where, sorted(body['asserted']))))
                return
            if pri['destination'] != case['report_to']:
                run.viols.append(('content', 'destination', '%s: report addressed to %s' % (where, pri['destination'])))
            if body['subject_source'] != case['source'] or body['subject_time'] != 820000000000 or body['subject_seqno'] != case['seqno']:
                run.viols.append(('content', 'subject', '%s: report subject %s/%s/%s' % (where, body['subject_source'], body['subject_time'], body['subject_seqno'])))
            extra = set(body['asserted']) - allowed
            if extra:
                kind = 'deleted-although-forwarded' if 'deleted' in extra and 'forwarded' in occurred else ('not-requested' if extra - requested else 'did-not-occur')
                run.viols.append(('assertion', kind + ':' + ','.join(sorted(extra)), '%s: report asserts %s; requested %s, occurred %s' % (
                    where, sorted(body['asserted']), sorted(requested), sorted(occurred))))
            want_time = bool(case['flags'] & rfc9171.FLAG_STATUS_TIME)
            if bool(body['times']) != want_time and body['asserted']:
                run.viols.append(('content', 'time-' + ('missing' if want_time else 'unrequested'), '%s: status times %r' % (where, body['times'])))
            if body['times']:
                stats['rpt.with_time'] = 1
            if pri['flags'] & rfc9171.RPT_FLAGS:
                run.viols.append(('content', 'report-requests-reports', '%s: the report itself carries report-request flags 0x%x' % (where, pri['flags'])))
            for blk in [pri] + rpt['blocks']:
                if not blk['crc_ok'] or blk['crc_type'] == 0:
                    run.viols.append(('content', 'crc', '%s: report block %s has CRC type %d / valid %s' % (where, blk.get('num', 'primary'), blk['crc_type'], blk['crc_ok'])))
            if case['outcome'] == 'secfail' and 'deleted' in body['asserted'] and body['reason'] not in (12, 13, 14, 15, 16):
                run.viols.append(('content', 'reason-not-security', '%s: deletion after a security failure reported with reason %r' % (where, body['reason'])))
            sig = (body['subject_source'], body['subject_time'], body['subject_seqno'], tuple(sorted(body['asserted'])))
            if sig in seen_sigs:
                run.viols.append(('duplicate', 'report-repeated', '%s: two status reports with the same subject assert the same %s' % (where, sorted(body['asserted']))))
            seen_sigs.add(sig)
            asserted_all |= set(body['asserted'])
        if run.viols:
            return


def judge(run):
    return run.viols


def describe(run):
    plan = run.plan
    counters = dict(run.wld.counters)
    counters.update(run.stats)
    nontrivial = any(case['flags'] & rfc9171.RPT_FLAGS and case['report_to'] != 'dtn:none' for case in plan['cases'])
    sample = dict(cases=[{key: case[key] for key in ('outcome', 'flags', 'report_to', 'source')} for case in plan['cases']],
                  outputs=[rec['data'].hex()[:100] for rec in run.har.cl_out['n1']][:6])
    return dict(nontrivial=nontrivial, key=bc.digest(plan), sim_us=run.wld.now, steps=run.wld.steps, capped=run.wld.capped, counters=counters, sample=sample)
