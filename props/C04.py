''' C04 - TCPCL endpoints only emit RFC 9174-legal message sequences.
Engine E1; oracle = reference grammar automaton over both wire taps. DESIGN 5/C04.
'''
from scenarios import tcpcl_pair
from props import tcpcl_common as tc

ID = 'C04'
LEVEL = 'exploration'
RULE = ('same plan space as C01 plus termination (terminate/shutdown/close at drawn times or on history triggers), timers and '
        'faults (stall, slow node, reset, kill, black-hole) in a share of runs; both directions of the byte stream are decoded '
        'by the independent RFC 9174 decoder and fed, in wire order, to a grammar automaton per endpoint. Non-trivial: at least '
        'one segment or SESS_TERM on the wire; distinct = distinct event-history digests.')
COMPONENTS = tc.COMPONENTS
PROBES = ('wire.SESS_TERM', 'wire.segments', 'fault.reset', 'fault.stall', 'fault.kill', 'probe.term_mid_transfer',
          'probe.ack_after_term')
ASSUMPTIONS = ['as C01', 'MSG_REJECT octet order taken from the repository test vector (DESIGN 3)']
CHUNK = 10


def gen(ch, tier):
    prof = dict(min_one=True, backpressure=True, max_bundles=4, liveness=False,
                big=32768, max_segments=200, allow_zero=ch.coin('allow0', 1, 8))
    mode = ch.weighted('mode', (3, 5, 2, 3))
    if mode == 1:
        prof['terminate'] = True
    elif mode == 2:
        prof['timers'] = True
        prof['horizon'] = 30 * tcpcl_pair.SEC
    elif mode == 3:
        prof['terminate'] = ch.coin('t', 1, 2)
        prof['faults'] = True
    if ch.coin('mod', 1, 4):
        prof['modulate'] = True
    return tcpcl_pair.gen_plan(ch, prof)


def execute(plan, sched, verbose=False):
    return tcpcl_pair.run_plan(plan, sched, verbose)


def judge(run):
    obs = tc.Obs(run)
    run.obs = obs
    return tc.check_grammar(obs)


def describe(run):
    obs = getattr(run, 'obs', None) or tc.Obs(run)
    extra = {}
    for side in ('A', 'P'):
        term_seen = False
        inprog = False
        for msg in obs.wire[side]:
            if msg['kind'] == 'SESS_TERM':
                term_seen = True
                if inprog:
                    extra['probe.term_mid_transfer'] = 1
            elif msg['kind'] == 'XFER_SEGMENT':
                inprog = not msg['flags'] & 1
            elif msg['kind'] == 'XFER_ACK' and term_seen:
                extra['probe.ack_after_term'] = 1
    info = tc.describe(obs, extra)
    info['nontrivial'] = bool(info['counters'].get('wire.segments') or info['counters'].get('wire.SESS_TERM'))
    return info
