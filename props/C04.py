''' C04 - TCPCL endpoints only emit RFC 9174-legal message sequences.
Engine E1; oracle = reference grammar automaton over both wire taps. DESIGN 5/C04.
'''
from scenarios import tcpcl_pair
from props import tcpcl_common as tc

ID = 'C04'
LEVEL = 'exploration'
RULE = ('same plan space as C01 plus termination (terminate/shutdown/close at drawn times or on history triggers), timers and '
        'faults (stall, slow node, reset, kill, black-hole) in a share of runs; both directions of the byte stream are decoded '
        'by the independent RFC 9174 decoder and fed, in wire order, to a grammar automaton per endpoint. Non-trivial: at least '
        'one segment or SESS_TERM on the wire; distinct = distinct event-history digests.')
COMPONENTS = tc.COMPONENTS
PROBES = ('wire.SESS_TERM', 'wire.segments', 'engine.scripted', 'probe.refuse_in_progress', 'probe.refuse_after_end', 'fault.reset', 'fault.stall', 'fault.kill', 'probe.term_mid_transfer',
          'probe.ack_after_term')
ASSUMPTIONS = ['as C01', 'MSG_REJECT octet order taken from the repository test vector (DESIGN 3)']
CHUNK = 10


def gen(ch, tier):
    if ch.coin('scripted', 1, 6):
        # one real agent against a conforming scripted peer that - unlike the repository's own agent - refuses transfers
        # (all reason codes, during a transfer and after its last segment): the agent's output is judged by the same automaton
        from props import C18
        plan = C18._gen_scripted(ch)
        plan['terminate'] = None
        return plan
    prof = dict(min_one=True, backpressure=True, max_bundles=4, liveness=False,
                big=32768, max_segments=200, allow_zero=ch.coin('allow0', 1, 8))
    mode = ch.weighted('mode', (3, 5, 2, 3))
    if mode == 1:
        prof['terminate'] = True
    elif mode == 2:
        prof['timers'] = True
        prof['horizon'] = 30 * tcpcl_pair.SEC
    elif mode == 3:
        prof['terminate'] = ch.coin('t', 1, 2)
        prof['faults'] = True
    if ch.coin('mod', 1, 4):
        prof['modulate'] = True
    return tcpcl_pair.gen_plan(ch, prof)


def execute(plan, sched, verbose=False):
    if plan.get('scenario') == 'tcpcl_scripted':
        from props import C18
        run = C18._execute_scripted(plan, sched, verbose)
        run.viols = []
        return run
    return tcpcl_pair.run_plan(plan, sched, verbose)


def _judge_scripted(run):
    ''' The agent's output against a conforming scripted peer. All peer messages are fed first (the automaton then knows every
    segment an acknowledgement may answer, in order); a transfer the peer refused may be abandoned by the agent. '''
    from ref import rfc9174
    har = run.har
    gram = rfc9174.Grammar('V')
    dec = rfc9174.StreamDecoder()
    refused = set()
    for msg in dec.feed(bytes(har.sent), (0, 0)):
        gram.peer_sent(msg)
        if msg['kind'] == 'XFER_REFUSE':
            refused.add(msg['transfer_id'])
    for msg in har.vmsgs:
        if msg['kind'] == 'XFER_SEGMENT' and msg['flags'] & rfc9174.FLAG_START and gram.cur_tid in refused:
            gram.cur_tid = None
        gram.sent(msg)
    out = [(clause, tc._grammar_discr(clause, detail), 'agent facing a scripted peer: %s' % detail) for (clause, detail) in gram.errors]
    if har.vdec.error is not None:
        out.append(('decode', 'undecodable-output', 'the agent wrote octets no RFC 9174 decoder accepts at offset %d: %s' % har.vdec.error))
    return out


def judge(run):
    if run.plan.get('scenario') == 'tcpcl_scripted':
        return _judge_scripted(run)
    obs = tc.Obs(run)
    run.obs = obs
    return tc.check_grammar(obs)


def describe(run):
    if run.plan.get('scenario') == 'tcpcl_scripted':
        counters = dict(run.wld.counters)
        counters.update(run.stats)
        counters['engine.scripted'] = 1
        counters['wire.segments'] = len([msg for msg in run.har.vmsgs if msg['kind'] == 'XFER_SEGMENT'])
        return dict(nontrivial=bool(counters['wire.segments']), key=run.wld.digest(), sim_us=run.wld.now, steps=run.wld.steps, capped=run.wld.capped,
                    counters=counters, sample=dict(engine='scripted', role=run.plan['role'], peer_mru=run.plan['peer_mru'], ops=run.plan['ops'][:12]))
    obs = getattr(run, 'obs', None) or tc.Obs(run)
    extra = {}
    for side in ('A', 'P'):
        term_seen = False
        inprog = False
        for msg in obs.wire[side]:
            if msg['kind'] == 'SESS_TERM':
                term_seen = True
                if inprog:
                    extra['probe.term_mid_transfer'] = 1
            elif msg['kind'] == 'XFER_SEGMENT':
                inprog = not msg['flags'] & 1
            elif msg['kind'] == 'XFER_ACK' and term_seen:
                extra['probe.ack_after_term'] = 1
    info = tc.describe(obs, extra)
    info['nontrivial'] = bool(info['counters'].get('wire.segments') or info['counters'].get('wire.SESS_TERM'))
    return info
