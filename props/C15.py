''' C15 - TCPCL enforces its TLS and peer-authentication policy.
Engine E4: two real agents, TLS stub, real X.509 certificates. DESIGN 5/C15.
'''
import hashlib

from scenarios import tcpcl_pair, tcpcl_tls
from props import tcpcl_common as tc
from ref import tls_policy

ID = 'C15'
LEVEL = 'exploration'
RULE = ('per run: (tls_enable, require_tls in {None,True,False}, require_host_authn, require_node_authn) for both sides, handshake '
        'success/failure, each side\'s certificate absent or with any subset of IP / DNS / URI subject-alternative names each matching '
        'or not; the independent policy function ref/tls_policy.py predicts per endpoint {no SESS_INIT + closed, clear session, secured '
        'session, SESS_TERM(contact failure)}; observed from the wire, state signals, is_secure() and the authn fields. The decision '
        'cell of a run = (attempt, A/P requirement outcome, handshake, A/P evaluation outcome); the evidence lists how many runs hit '
        'each cell. Non-trivial: TLS attempted or a requirement configured; distinct = digest of the configuration table row.')
COMPONENTS = dict(tc.COMPONENTS, simulated=tc.COMPONENTS['simulated'] + ['TLS handshake and record layer (dsim.tls): pass-through, '
                  'handshake succeeds/fails as the plan says; certificates and the repo\'s match_id / policy code are real'])
PROBES = ('cell.secured-session', 'cell.contact-failure', 'cell.clear-session', 'cell.tls-attempt-violates-policy', 'cell.handshake-failed',
          'cell.peer-refuses', 'probe.cert_absent', 'probe.ip_mismatch', 'probe.uri_mismatch', 'probe.host_required', 'probe.node_required', 'probe.dial_by_name', 'probe.dns_mismatch', 'fault.tcp_rewrite', 'probe.empty_node_id')
ASSUMPTIONS = ['TLS cryptography is not simulated: the stub hands the configured peer certificate to getpeercert()',
               'ssl.match_hostname (removed in Python 3.12) is provided by the facade, see DESIGN 1.2',
               'Agent.connect() always dials by resolved IP address; to reach the DNS-ID branch of the policy half of the runs create the active contact the way Agent.connect does but with the DNS name kept (Agent._bind_handler)']
CHUNK = 25
BUDGET = {'quick': 30, 'thorough': 400}


def _gen_cert(ch, side, own_ip, own_nid):
    if ch.coin(side + '.nocert', 1, 8):
        return None
    ipk = ch.weighted(side + '.ip', (3, 3, 2, 1))
    ips = {0: [], 1: [own_ip], 2: ['10.9.9.9'], 3: [own_ip, '10.9.9.9']}[ipk]
    dnsk = ch.weighted(side + '.dns', (3, 3, 2, 1))
    own_dns = 'host-%s.example' % side.lower()
    dnss = {0: [], 1: [own_dns], 2: ['other.example'], 3: ['other.example', own_dns]}[dnsk]
    urik = ch.weighted(side + '.uri', (3, 3, 2, 1))
    # an endpoint that announces an empty node id cannot have it in its certificate
    named = own_nid or 'dtn://configured-elsewhere/'
    uris = {0: [], 1: [named], 2: ['dtn://other/'], 3: ['dtn://other/', named]}[urik]
    return dict(ip=ips, dns=dnss, uri=uris)


def gen(ch, tier):
    prof = dict(min_one=False, backpressure=False, max_bundles=1, liveness=False, allow_zero=False, horizon=5 * tcpcl_pair.SEC,
                big=2000, max_queries=0, ipv6=False)
    plan = tcpcl_pair.gen_plan(ch, prof)
    plan['scenario'] = 'tcpcl_tls'
    for side in ('A', 'P'):
        cfg = plan['cfg'][side]
        cfg['tls_enable'] = not ch.coin(side + '.notls', 1, 4)
        cfg['require_tls'] = ch.choice(side + '.req', (None, None, True, True, False))
        if ch.coin(side + '.nonid', 1, 8):
            # the default of an unconfigured agent: an empty node id in SESS_INIT
            cfg['node_id'] = ''
        cfg['require_host_authn'] = ch.coin(side + '.rh', 1, 2)
        cfg['require_node_authn'] = ch.coin(side + '.rn', 1, 2)
        cfg['enable_test'] = []
    plan['tls'] = dict(
        dial_by_name=ch.coin('byname', 1, 2),
        fail=ch.coin('hsfail', 1, 8),
        certs={side: _gen_cert(ch, side, tcpcl_pair.ADDR[side], plan['cfg'][side]['node_id']) for side in ('A', 'P')},
    )
    # on-path corruption of the clear-text contact headers: reserved flag bits set in flight (the CAN_TLS bit itself is
    # left alone, so what each side offers - and therefore the prediction - is unchanged)
    rewrite = {}
    for name in ('a2b', 'b2a'):
        if ch.coin('chflags.' + name, 1, 4):
            rewrite[name] = {'5': ch.choice('chmask', (0x02, 0x80, 0xFE, 0x40))}
    if rewrite:
        plan['net'] = dict(plan['net'], tcp_rewrite=rewrite)
    # a TLS server always presents a certificate
    if plan['tls']['certs']['P'] is None:
        plan['tls']['certs']['P'] = dict(ip=[], dns=[], uri=[])
    plan['ops'] = [op for op in plan['ops'] if op['op'] in ('connect', 'send')]
    for side in ('A', 'P'):
        plan['ops'].append(dict(t=1 * tcpcl_pair.SEC, node=side, op='secure?'))
        plan['ops'].append(dict(t=1 * tcpcl_pair.SEC + 5, node=side, op='params'))
    plan['ops'] = sorted(plan['ops'], key=lambda op: op['t'])
    plan['chunk_size'] = 10240
    return plan


class _Har(tcpcl_tls.TlsHarness):

    def do_op(self, op, _evt=None):
        if op['op'] == 'connect' and self.plan['tls'].get('dial_by_name'):
            # what Agent.connect() does, but keeping the DNS name the peer was dialled by as the
            # reference identifier (Agent.connect resolves the name and passes the address on)
            import socket as _sock
            import tcpcl.agent
            import ipaddress
            agent = self.agent['A']
            with self.wld.as_node('A'):
                conv = tcpcl.agent.Conversation(family=_sock.AF_INET, peer_address=ipaddress.ip_address(tcpcl_pair.ADDR['P']), peer_port=4556)
                sock = conv.make_socket()
                hdl = agent._bind_handler(config=agent._config, sock=sock, toaddr=('host-p.example', 4556))
                hdl.start()
            return
        if op['op'] == 'secure?':
            path = self.contact[op['node']]
            if path is not None:
                self.call(op['node'], path, 'is_secure')
            return
        return super().do_op(op, _evt)


def execute(plan, sched, verbose=False):
    return _Har(plan, sched, verbose).run()


def judge(run):
    obs = tc.Obs(run)
    run.obs = obs
    plan = run.plan
    out = []
    for evt in run.wld.hist:
        if evt[3] == 'tls-bypass':
            # once the TLS layer is on the connection nothing may be written underneath it
            out.append(('clear', 'write-bypasses-tls', '%s wrote %d octets to the TCP socket directly after TLS had been started on it' % (evt[2], evt[6])))
            break
    run.cells = {}
    for side in ('A', 'P'):
        peer = tc.OTHER[side]
        peer_dns = 'host-p.example' if (side == 'A' and plan['tls'].get('dial_by_name')) else None
        want = tls_policy.predict(plan['cfg'][side], plan['cfg'][peer], plan['tls']['certs'][peer], plan['tls']['fail'],
                                  tcpcl_pair.ADDR[peer], peer_dns)
        run.cells['cell.' + want['why']] = run.cells.get('cell.' + want['why'], 0) + 1
        sent_init = any(msg['kind'] == 'SESS_INIT' for msg in obs.wire[side])
        established = 'established' in tc.state_times(obs, side)
        terms = [msg for msg in obs.wire[side] if msg['kind'] == 'SESS_TERM' and not msg['flags'] & 1]
        closed = side in obs.tcp_close
        tag = want['why']
        if want['sess_init'] is False and sent_init:
            out.append(('no-sess-init', tag, '%s sent SESS_INIT although %s' % (side, tag)))
        if want['sess_init'] is True and not sent_init:
            out.append(('sess-init-missing', tag + _cause(obs), '%s never sent SESS_INIT although policy allows the session (%s)' % (side, tag)))
        if established and not want['established']:
            out.append(('established', tag, '%s entered state established although %s' % (side, tag)))
        if want['established'] and not established:
            out.append(('not-established', tag + _cause(obs), '%s did not establish the session although its policy is satisfied (%s)' % (side, tag)))
        if want['term_reason'] == 4:
            if not any(msg['reason'] == 4 for msg in terms):
                out.append(('contact-failure', 'no-sess-term' + _cause(obs), '%s did not terminate with contact-failure although the peer certificate fails its policy' % side))
        elif any(msg['reason'] == 4 for msg in terms):
            out.append(('contact-failure', 'spurious', '%s terminated with contact-failure although policy is satisfied (%s)' % (side, tag)))
        if want['sess_init'] is False and not closed and run.node[side].alive:
            out.append(('not-closed', tag, '%s did not close the connection although %s' % (side, tag)))
        for call in run.calls:
            if call[2] != side:
                continue
            if call[3] == 'is_secure' and not isinstance(call[5], tuple) and want['secure'] is not None:
                if bool(call[5]) != bool(want['secure']):
                    out.append(('secure-flag', tag, '%s reports is_secure=%s, expected %s' % (side, bool(call[5]), want['secure'])))
            if call[3] == 'get_session_parameters' and isinstance(call[5], dict) and call[5] and want.get('authn') and want['established']:
                authn = want['authn']
                got_nid = call[5].get('authn_nodeid')
                if authn['authn_nodeid'] and str(got_nid) != str(authn['authn_nodeid']):
                    out.append(('authn-fields', 'nodeid', '%s reports authn_nodeid=%r, certificate authenticates %r' % (side, got_nid, authn['authn_nodeid'])))
                if not authn['authn_nodeid'] and got_nid not in (None, False, 0):
                    out.append(('authn-fields', 'nodeid-spurious', '%s reports authn_nodeid=%r without a matching URI SAN' % (side, got_nid)))
                got_ip = call[5].get('authn_ipaddrid')
                if authn['authn_ip'] and str(got_ip) != str(authn['authn_ip']):
                    out.append(('authn-fields', 'ipaddr', '%s reports authn_ipaddrid=%r, certificate authenticates %r' % (side, got_ip, authn['authn_ip'])))
    return out


def _cause(obs):
    if obs.escaped:
        return '-after-%s@%s' % (obs.escaped[0][4], obs.escaped[0][5])
    return ''


def describe(run):
    obs = getattr(run, 'obs', None) or tc.Obs(run)
    plan = run.plan
    extra = dict(getattr(run, 'cells', {}))
    certs = plan['tls']['certs']
    if certs['A'] is None:
        extra['probe.cert_absent'] = 1
    if any(plan['cfg'][side]['node_id'] == '' for side in ('A', 'P')):
        extra['probe.empty_node_id'] = 1
    if plan['tls'].get('dial_by_name'):
        extra['probe.dial_by_name'] = 1
        if certs['P'] and certs['P']['dns'] and 'host-p.example' not in certs['P']['dns']:
            extra['probe.dns_mismatch'] = 1
    for side in ('A', 'P'):
        if certs[side] and '10.9.9.9' in certs[side]['ip'] and tcpcl_pair.ADDR[side] not in certs[side]['ip']:
            extra['probe.ip_mismatch'] = 1
        if certs[side] and certs[side]['uri'] and plan['cfg'][side]['node_id'] not in certs[side]['uri']:
            extra['probe.uri_mismatch'] = 1
        if plan['cfg'][side]['require_host_authn']:
            extra['probe.host_required'] = 1
        if plan['cfg'][side]['require_node_authn']:
            extra['probe.node_required'] = 1
    info = tc.describe(obs, extra)
    row = repr(({side: {key: plan['cfg'][side][key] for key in ('tls_enable', 'require_tls', 'require_host_authn', 'require_node_authn')}
                 for side in ('A', 'P')}, plan['tls']))
    info['key'] = hashlib.blake2b(row.encode(), digest_size=12).hexdigest()
    info['cells'] = dict(getattr(run, 'cells', {}))
    attempt = plan['cfg']['A']['tls_enable'] and plan['cfg']['P']['tls_enable']
    info['nontrivial'] = bool(attempt or plan['cfg']['A']['require_tls'] is not None or plan['cfg']['P']['require_tls'] is not None)
    info['sample'] = dict(cfg={side: {key: plan['cfg'][side][key] for key in ('tls_enable', 'require_tls', 'require_host_authn', 'require_node_authn')}
                               for side in ('A', 'P')}, tls=plan['tls'],
                          wire=info['sample']['wire'])
    return info
