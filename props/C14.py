''' C14 - TCPCL negotiates parameters correctly and keeps its timers.
Engine E1 on virtual time. DESIGN 5/C14.
'''
from scenarios import tcpcl_pair
from props import tcpcl_common as tc

ID = 'C14'
LEVEL = 'exploration'
RULE = ('keepalive in {0,1,2,5,30,65535} and idle time in {0,1,3,10,60} drawn per side, MRUs / initial segment sizes / '
        'modulate_target_ack_time drawn, link latencies drawn per write, a quarter of the runs over a slow link (0.3-4 kB/s, so that octets of a message keep arriving for seconds); traffic placed at drawn times over a 40 s simulated '
        'horizon; timing clauses judged with tolerance 0.5 s + injected stalls, over unbounded socket buffers or - in a share of the stall runs - over bounded ones, where the writer meets EAGAIN across keepalive deadlines and the cadence has to be back afterwards; '
        'a share of runs black-holes the link after a termination request. Non-trivial: both SESS_INIT exchanged and a timer '
        'interval is configured; distinct = distinct event-history digests.')
COMPONENTS = tc.COMPONENTS
PROBES = ('wire.KEEPALIVE', 'wire.SESS_TERM', 'probe.idle_term', 'probe.params_queried', 'fault.blackhole', 'probe.modulated', 'probe.slow_link', 'probe.eagain_with_timers')
ASSUMPTIONS = ['as C01', 'timers are judged on the virtual clock; tolerance 0.5 s covers simulated loop latency']
CHUNK = 10


def gen(ch, tier):
    prof = dict(min_one=False, backpressure=False, max_bundles=3, liveness=False, timers=True, modulate=True,
                big=16384, max_segments=100, allow_zero=False, horizon=40 * tcpcl_pair.SEC, max_queries=4)
    mode = ch.weighted('mode', (5, 2, 2))
    if mode == 1:
        prof['terminate'] = True
        prof['term_kinds'] = ('terminate',)
        prof['term_reasons'] = (0, 3, 5)
        prof['faults'] = True
        prof['fault_kinds'] = ('blackhole',)
    elif mode == 2:
        prof['faults'] = True
        prof['fault_kinds'] = ('stall', 'slow')
    plan = tcpcl_pair.gen_plan(ch, prof)
    if mode == 2 and ch.coin('bounded', 1, 2):
        # bounded socket buffers: while the link stalls, the writer meets EAGAIN across keepalive deadlines; once the stall is
        # over the cadence has to be back (the tolerance of the timing clauses already contains every injected stall)
        plan['net'] = dict(plan['net'], tcp_capacity=ch.choice('bcap', (2048, 4096, 16384)))
        plan['bounded'] = True
        for flt in plan['faults']:
            if flt['kind'] == 'stall':
                flt['dur'] = ch.choice('bdur', (2, 7, 12)) * tcpcl_pair.SEC
        if ch.coin('directed', 2, 3):
            # the stall begins when one side starts a transfer that is larger than the socket buffer and goes out as one
            # segment: everything that side has to say is queued behind the full socket when its keepalive deadline passes,
            # and once the stall is over nothing but keepalives is left to send
            side = ch.choice('dside', ('A', 'P'))
            other = 'P' if side == 'A' else 'A'
            for name in ('A', 'P'):
                plan['cfg'][name]['keepalive_time'] = ch.choice('dka', (1, 2, 5))
            plan['cfg'][side]['segment_size_tx_initial'] = 104857
            plan['cfg'][side]['modulate_target_ack_time'] = None
            plan['cfg'][other]['segment_size_mru'] = 10 * 1024**2
            plan['ops'].append(dict(t=(3 + ch.pick('dt', 15)) * tcpcl_pair.SEC, node=side, op='send', len=plan['net']['tcp_capacity'] * ch.choice('dmul', (2, 3)), tag=900))
            plan['faults'].append(dict(kind='stall', dir='a2b' if side == 'A' else 'b2a', dur=ch.choice('ddur', (7, 12)) * tcpcl_pair.SEC,
                                       after=['dbus-signal', side, 1 + ch.pick('dnth', 2), 'send_bundle_started'], delay=0))
    # spread traffic over the horizon so that it races the timers
    for op in plan['ops']:
        if op['op'] == 'send' and 't' in op and ch.coin('late', 1, 2):
            op['t'] = ch.pick('late.t', 35) * tcpcl_pair.SEC + ch.choice('late.eps', (0, 999000, 1000, 500000))
    if not plan.get('bounded') and ch.coin('slowlink', 1, 4):
        # a slow link: messages trickle in over seconds, so octets keep arriving while no message completes
        plan['net'] = dict(plan['net'], tcp_rate=ch.choice('rate', (300, 1000, 4000)))
    plan['ops'].append(dict(t=2 * tcpcl_pair.SEC, node='A', op='params'))
    plan['ops'].append(dict(t=2 * tcpcl_pair.SEC + 7, node='P', op='params'))
    plan['ops'] = sorted((op for op in plan['ops'] if 't' in op), key=lambda op: op['t']) + [op for op in plan['ops'] if 't' not in op]
    return plan


def execute(plan, sched, verbose=False):
    return tcpcl_pair.run_plan(plan, sched, verbose)


def judge(run):
    obs = tc.Obs(run)
    run.obs = obs
    return tc.check_params_and_timers(obs)


def describe(run):
    obs = getattr(run, 'obs', None) or tc.Obs(run)
    extra = {}
    for side in ('A', 'P'):
        if any(msg['kind'] == 'SESS_TERM' and msg['reason'] == 1 for msg in obs.wire[side]):
            extra['probe.idle_term'] = 1
    if run.plan['net'].get('tcp_rate'):
        extra['probe.slow_link'] = 1
    if run.plan.get('bounded') and run.wld.counters.get('tcp.eagain'):
        extra['probe.eagain_with_timers'] = 1
    if any(call[3] == 'get_session_parameters' and isinstance(call[5], dict) and call[5] for call in run.calls):
        extra['probe.params_queried'] = 1
    if any(run.plan['cfg'][side].get('modulate_target_ack_time') for side in ('A', 'P')):
        extra['probe.modulated'] = 1
    info = tc.describe(obs, extra)
    cfg = run.plan['cfg']
    info['nontrivial'] = bool(all(any(msg['kind'] == 'SESS_INIT' for msg in obs.wire[side]) for side in ('A', 'P'))
                              and (min(cfg['A']['keepalive_time'], cfg['P']['keepalive_time']) or cfg['A']['idle_time'] or cfg['P']['idle_time']))
    return info
