''' C16 - COSE confidentiality blocks encrypt, bind context and decrypt exactly.
Engine E5 as C03, with BCBs. DESIGN 5/C16.
'''
import cbor2

from props import bp_common as bc
from props import bpsec_common as sc
from props import C03
from ref import rfc9171, bpsec_cose

ID = 'C16'
LEVEL = 'fault_enumeration'
RULE = ('per case one confidentiality configuration (COSE_Encrypt0 with A128GCM or A256GCM and a direct key, IV from the plan; one target (payload) or two targets (payload + extension block) per block; or two confidentiality blocks of a foreign source over different targets with different keys, in either block order; plaintexts of '
        'length 0, 1, 7, 8, 9, 40, 300; acceptance on or off) applied by the real source node, or a foreign source built by '
        'ref/bpsec_cose.py; on the wire the target data must be ciphertext of length plaintext+16 that the independent AES-GCM / AAD '
        'construction decrypts to the plaintext; alterations as in C03 (every single-bit flip in a drawn window with CRC fix-up, field '
        'rewrites of primary fields, target metadata, security source, scope, IV, ciphertext, tag; wrong / missing key). One evaluation = '
        'one altered reception; distinct = (configuration digest, alteration).')
COMPONENTS = bc.COMPONENTS
PROBES = ('class.covered', 'class.other', 'kind.enc0', 'kind.two_targets', 'kind.two_bcb', 'kind.split_assoc', 'kind.foreign', 'kind.report', 'probe.report_with_bcb', 'alt.bitflip', 'alt.field', 'alt.wrong-key', 'alt.missing-key', 'cov.primary',
          'cov.target-btsd', 'cov.target-meta', 'cov.source', 'cov.scope', 'cov.iv', 'wire.no_plaintext_window', 'plain.empty', 'accept.on', 'accept.off')
ASSUMPTIONS = ['plaintext recovery is checked with acceptance enabled; with acceptance off a verified bundle is delivered still encrypted, which the statement allows',
               'COSE_Encrypt with wrapped content keys needs the pycose fork pinned in pyproject.toml and is not exercised (see C03)']
CHUNK = 4
BUDGET = {'quick': 40, 'thorough': 600}
#: one run makes hundreds of evaluations (each a freshly sourced, altered, delivered bundle): longer per-run watchdog
WATCHDOG_S = 900


def gen(ch, tier):
    kind = ch.choice('kind', ('enc0-128', 'enc0-256', 'foreign', 'enc0-256', 'two-bcb', 'report', 'encw-128', 'encw-256'))
    if kind == 'report':
        # the policy node itself originates a bundle: a status report about a bundle it received
        return dict(scenario='bpsec_bcb', kind='report-' + ch.choice('ralg', ('128', '256')), plen=ch.choice('plen', (1, 40, 300)), others=0,
                    pri_crc=ch.choice('pc', (0, 2, 1)), blk_crc=ch.choice('bc', (0, 1, 2)), accept=True, dst_key='right',
                    rflags=ch.choice('rflags', (0x20000, 0x24000, 0x20040, 0x24040)), window=0, wsize=0, falg=1, tgt_ext=False, fixup=True)
    if kind == 'two-bcb':
        # two confidentiality blocks of a foreign source, each over its own target and with its own key
        return dict(scenario='bpsec_bcb', kind=kind, plen=ch.choice('plen', (1, 8, 40)), others=ch.weighted('others', (2, 3, 1)),
                    pri_crc=ch.choice('pc', (0, 0, 2, 1)), blk_crc=ch.choice('bc', (0, 0, 1, 2)), accept=ch.coin('accept', 2, 3), dst_key='right',
                    order=ch.choice('order', ('payload-first', 'ext-first')), scope=ch.choice('scope', ([[0, 1], [-1, 1]], [[0, 1], [-1, 1], [-2, 1]], [[-1, 1]])),
                    window=0, wsize=0, falg=1, tgt_ext=False, fixup=True)
    return dict(scenario='bpsec_bcb', kind=kind, plen=ch.choice('plen', (0, 1, 7, 8, 9, 40, 300)), others=ch.weighted('others', (2, 3, 1)),
                pri_crc=ch.choice('pc', (0, 0, 2, 1)), blk_crc=ch.choice('bc', (0, 0, 1, 2)), window=ch.pick('window', 1 << 16),
                wsize=24 if tier == 'quick' else 96, accept=ch.coin('accept', 2, 3), dst_key=ch.choice('dstkey', ('right', 'right', 'right', 'wrong', 'missing')),
                falg=ch.choice('falg', (1, 3)), scope=ch.choice('scope', ([[0, 1], [-1, 1]], [[0, 1], [-1, 1], [-2, 1]], [[-1, 1]])),
                cbits=ch.choice('cbits', (None, None, 128, 256)), ivmode=ch.choice('ivmode', ('list', 'list', 'list', 'random', 'short')), tgt_ext=(kind != 'foreign' and ch.coin('tgtext', 1, 3)), split_assoc=ch.coin('split', 1, 2), typed_ext=ch.coin('typed', 1, 2), svc_source=ch.coin('svcsrc', 1, 3), fixup=True)


def _kid(plan):
    if plan['kind'] == 'foreign':
        return 'enc128' if plan['falg'] == 1 else 'enc256'
    if plan['kind'].startswith('report-'):
        return 'enc' + plan['kind'][7:]
    if plan['kind'].startswith('encw-'):
        # wrapped-key mode (COSE_Encrypt with one AES-KW recipient): the policy names the key-encryption key
        return 'kw' + plan['kind'][5:]
    return 'enc' + plan['kind'][5:]


def _content(plan):
    ''' Content-encryption algorithm and key of the wrapped-key mode (the key travels wrapped in the recipient). '''
    bits = plan.get('cbits') or int(plan['kind'][5:])
    return ('A%dGCM' % bits, bytes(range(0x90, 0x90 + bits // 8)).hex())


def _op(plan, ivs):
    op = dict(type='bcb', kid=_kid(plan), ivs=ivs)
    if plan['kind'].startswith('encw-'):
        (op['content_alg'], op['content_key']) = _content(plan)
    return op


def _iv(seqno):
    return (b'IV' + seqno.to_bytes(4, 'big') * 3)[:12]


def _policy(plan):
    if plan['kind'] == 'foreign':
        return []
    ivs = []
    # 'random': the documented default, an empty list ("leave empty to use random"); 'short': a list that runs out after the
    # first bundle - the source must go on encrypting, with initialization vectors of its own
    for ix in range(0, {'random': 0, 'short': 1}.get(plan.get('ivmode'), 600)):
        ivs.append(_iv(C03.seq_code(ix)).hex())
        if plan.get('tgt_ext'):
            ivs.append((b'XV' + _iv(C03.seq_code(ix))[2:]).hex())
    if plan.get('tgt_ext') and plan.get('split_assoc'):
        # two associations, the one for the extension block listed first: operations are not in ascending target order
        return [dict(src='.*', dst='.*', targets=[10 if plan.get('typed_ext') else 192], ops=[_op(plan, ivs[1::2])]),
                dict(src='.*', dst='.*', targets=[1], ops=[_op(plan, ivs[0::2])])]
    return [dict(src='.*', dst='.*', targets=[1, 10 if plan.get('typed_ext') else 192] if plan.get('tgt_ext') else [1], ops=[_op(plan, ivs)])]


def _dst_keys(plan):
    kid = _kid(plan)
    if plan['dst_key'] == 'right':
        return list(sc.KEYS.values())
    if plan['dst_key'] == 'wrong':
        return [key if key['kid'] != kid else sc.wrong_key(kid) for key in sc.KEYS.values()]
    return [key for key in sc.KEYS.values() if key['kid'] != kid]


def plaintext(plan, index):
    return bc.body(1000 + index, plan['plen'])


def make_copy(plan, har, index):
    seqno = C03.seq_code(index)
    plain = plaintext(plan, index)
    ext = [dict(type=193, flags=ix & 1, crc_type=plan['blk_crc'], btsd=b'\x44OTH' + bytes([0x30 + ix])) for ix in range(plan['others'])]
    if plan.get('tgt_ext') and plan.get('typed_ext'):
        # ... built by the source as a typed layer (hop count 30/2), the type code implied by the layer
        ext.insert(0, dict(type=10, layer='hopcount', flags=0, crc_type=plan['blk_crc'], btsd=b'\x82\x18\x1e\x02'))
    elif plan.get('tgt_ext'):
        # a second target of the same confidentiality block (block number 2, after the payload in target order)
        ext.insert(0, dict(type=192, flags=0, crc_type=plan['blk_crc'], btsd=b'\x4cSECOND-TARGET'))
    if plan['kind'] != 'foreign':
        return sc.source_bundle(har, seqno, plain, ext, pri_crc=plan['pri_crc'], pay_crc=plan['blk_crc'], source='dtn://s/svc7' if plan.get('svc_source') else None)
    pri = dict(flags=0, crc_type=plan['pri_crc'], destination='dtn://d/app', source='dtn://s/', report_to='dtn:none',
               create_time=820000000000, seqno=seqno, lifetime=3600000)
    blocks = [dict(type=blk['type'], num=3 + ix, flags=blk['flags'], crc_type=blk['crc_type'], btsd=blk['btsd']) for (ix, blk) in enumerate(ext)]
    target = dict(type=1, num=1, flags=0, crc_type=plan['blk_crc'], btsd=plain)
    kid = _kid(plan)
    (bcb, enc_target) = bpsec_cose.make_bcb(pri, target, sc.RAW_KEYS[kid.encode()], kid.encode(), 2, _iv(seqno), alg=plan['falg'],
                                            scope={key: val for (key, val) in plan['scope']}, crc_type=plan['blk_crc'])
    return rfc9171.encode_bundle(pri, [bcb] + blocks + [enc_target])


class Run:
    pass


def execute(plan, sched, verbose=False):
    extra = None
    if plan['kind'].startswith('report-'):
        extra = {'s': dict(node_id='dtn://s/', rx_routes=[['^dtn://s/.*$', 'deliver']], tx_routes=[['.*', 'dtn://d/', None, 'd']],
                           security=dict(keys=list(sc.KEYS.values()), policies=_policy(plan)))}
    har = sc.make_world(sched, _policy(plan), _dst_keys(plan), plan['accept'], verbose, extra_nodes=extra)
    run = Run()
    run.har = har
    run.wld = har.wld
    run.plan = plan
    run.viols = []
    run.stats = dict(evals=0)
    run.keys = []
    try:
        _drive(run, plan, har)
    finally:
        har.close()
    return run


def classify(orig, alt_bytes):
    try:
        alt = rfc9171.decode_bundle(alt_bytes)
    except rfc9171.Malformed:
        return ('other', {'malformed'}, set())
    labels = sc.describe_change(orig, alt)
    bcb = sc.sec_blocks(orig, rfc9171.TYPE_BCB)[0]
    if not [blk for blk in alt['blocks'] if blk['num'] == bcb['num'] and blk['type'] == rfc9171.TYPE_BCB]:
        # the alteration removed the confidentiality block itself: the target stays ciphertext, nothing is decrypted
        return ('other', labels | {'bcb-removed'}, set())
    asb = bpsec_cose.parse_asb(bcb['btsd'])
    (scope, _addl) = bpsec_cose.scope_and_protected(asb)
    targets = set(asb['targets'])
    cov = set()
    for label in labels:
        if label == 'primary' and scope.get(0, 0) & 1:
            cov.add('cov.primary')
        elif label.startswith('btsd:') and int(label[5:]) in targets:
            cov.add('cov.target-btsd')
        elif label.startswith('meta:') and int(label[5:]) in targets and scope.get(-1, 0) & 1:
            cov.add('cov.target-meta')
        elif label.startswith('meta:') and int(label[5:]) == bcb['num'] and scope.get(-2, 0) & 1:
            still = [blk for blk in alt['blocks'] if blk['num'] == bcb['num'] and blk['type'] == rfc9171.TYPE_BCB]
            if still:
                # flags changed but it is still a confidentiality block with this number
                cov.add('cov.secblk-meta')
        elif label.startswith('asb:'):
            what = label.split(':', 2)[2]
            if what == 'source':
                cov.add('cov.source')
            elif what == 'scope':
                cov.add('cov.scope')
            elif what == 'cose-protected':
                cov.add('cov.cose-protected')
    if any(label.endswith('cose-unprotected') for label in labels):
        # the IV lives in the unprotected header; did it change?
        try:
            abcb = sc.sec_blocks(alt, rfc9171.TYPE_BCB)[0]
            iv1 = cbor2.loads(asb['results'][0][0][1])[1].get(5)
            iv2 = cbor2.loads(bpsec_cose.parse_asb(abcb['btsd'])['results'][0][0][1])[1].get(5)
            if iv1 != iv2:
                cov.add('cov.iv')
        except Exception:  # pylint: disable=broad-except
            pass
    if any(label.endswith('cose-tag') for label in labels):
        # COSE_Encrypt: the fourth item is the recipient list; AES key wrap authenticates the wrapped content key
        try:
            abcb = sc.sec_blocks(alt, rfc9171.TYPE_BCB)[0]
            rec1 = cbor2.loads(asb['results'][0][0][1])[3]
            rec2 = cbor2.loads(bpsec_cose.parse_asb(abcb['btsd'])['results'][0][0][1])[3]
            if len(rec1) == 1 and len(rec2) == 1 and rec1[0][:2] == rec2[0][:2] and rec1[0][2] != rec2[0][2] and isinstance(rec2[0][2], bytes):
                cov.add('cov.wrapped-key')
        except Exception:  # pylint: disable=broad-except
            pass
    if cov:
        return ('covered', labels, cov)
    return ('other', labels, set())


def field_alterations(orig):
    bcb = sc.sec_blocks(orig, rfc9171.TYPE_BCB)[0]
    asb = bpsec_cose.parse_asb(bcb['btsd'])
    tnum = asb['targets'][0]
    tgt = [blk for blk in orig['blocks'] if blk['num'] == tnum][0]
    pri = orig['primary']
    alts = [
        ('pri.source', dict(source='dtn://evil/'), {}),
        ('pri.lifetime', dict(lifetime=pri['lifetime'] + 1), {}),
        ('pri.flags', dict(flags=pri['flags'] | 0x20), {}),
        ('tgt.cipher-first', {}, {tnum: dict(btsd=bytes([tgt['btsd'][0] ^ 1]) + tgt['btsd'][1:])}),
        ('tgt.tag-last', {}, {tnum: dict(btsd=tgt['btsd'][:-1] + bytes([tgt['btsd'][-1] ^ 0x80]))}),
        ('tgt.truncate', {}, {tnum: dict(btsd=tgt['btsd'][:-1])}),
        ('tgt.flags', {}, {tnum: dict(flags=tgt['flags'] ^ 0x10)}),
    ]

    def asb_edit(func):
        new = bpsec_cose.parse_asb(bcb['btsd'])
        func(new)
        return bpsec_cose.encode_asb(new['targets'], new['source'], new['params'], new['results'], new['context_id'], new['flags'])

    def set_source(new):
        new['source'] = 'dtn://other/'

    def set_scope(new):
        new['params'] = [(pid, ({0: 1, -1: 1, -2: 1} if val != {0: 1, -1: 1, -2: 1} else {-1: 1}) if pid == 5 else val) for (pid, val) in new['params']]

    def set_iv(new):
        (rid, val) = new['results'][0][0]
        msg = cbor2.loads(val)
        msg[1][5] = bytes([msg[1][5][0] ^ 1]) + msg[1][5][1:]
        new['results'] = [[(rid, cbor2.dumps(msg))]]

    alts.append(('asb.source', {}, {bcb['num']: dict(btsd=asb_edit(set_source))}))

    def set_source_lookalike(new):
        # another spelling that a lenient reader takes for the same node: without (or with) the trailing slash
        new['source'] = new['source'][:-1] if new['source'].endswith('/') and new['source'].count('/') == 3 else new['source'] + '/'

    alts.append(('asb.source-lookalike', {}, {bcb['num']: dict(btsd=asb_edit(set_source_lookalike))}))
    if pri['source'].endswith('/') and pri['source'].count('/') == 3:
        alts.append(('pri.source-lookalike', dict(source=pri['source'][:-1]), {}))
    alts.append(('asb.scope', {}, {bcb['num']: dict(btsd=asb_edit(set_scope))}))
    alts.append(('cose.iv', {}, {bcb['num']: dict(btsd=asb_edit(set_iv))}))
    return alts


EXT_PLAIN = b'\x4cSECOND-TARGET'


def make_two(plan, index):
    ''' Reference-built bundle with two confidentiality blocks: one over the payload (key enc128), one over an extension block (key enc256). '''
    seqno = C03.seq_code(index)
    plain = plaintext(plan, index)
    pri = dict(flags=0, crc_type=plan['pri_crc'], destination='dtn://d/app', source='dtn://s/', report_to='dtn:none',
               create_time=820000000000, seqno=seqno, lifetime=3600000)
    scope = {key: val for (key, val) in plan['scope']}
    others = [dict(type=193, num=5 + ix, flags=ix & 1, crc_type=plan['blk_crc'], btsd=b'\x44OTH' + bytes([0x30 + ix])) for ix in range(plan['others'])]
    (bcb_a, enc_pay) = bpsec_cose.make_bcb(pri, dict(type=1, num=1, flags=0, crc_type=plan['blk_crc'], btsd=plain), sc.RAW_KEYS[b'enc128'], b'enc128', 2,
                                           _iv(seqno), alg=1, scope=scope, crc_type=plan['blk_crc'])
    (bcb_b, enc_ext) = bpsec_cose.make_bcb(pri, dict(type=192, num=4, flags=0, crc_type=plan['blk_crc'], btsd=EXT_PLAIN), sc.RAW_KEYS[b'enc256'], b'enc256', 3,
                                           b'XV' + _iv(seqno)[2:], alg=3, scope=scope, crc_type=plan['blk_crc'])
    secs = [bcb_a, bcb_b] if plan['order'] == 'payload-first' else [bcb_b, bcb_a]
    return rfc9171.encode_bundle(pri, secs + [enc_ext] + others + [enc_pay])


def _drive_two(run, plan, har):
    stats = run.stats
    cfg = bc.digest({key: plan[key] for key in ('kind', 'plen', 'others', 'pri_crc', 'blk_crc', 'accept', 'order', 'scope')})
    stats['kind.two_bcb'] = 1
    stats['accept.' + ('on' if plan['accept'] else 'off')] = 1
    cases = [('unmodified', None), ('payload-cipher', 1), ('ext-cipher', 4), ('payload-tag', 1), ('ext-tag', 4)]
    for (index, (name, tnum)) in enumerate(cases):
        copy = make_two(plan, index)
        plain = plaintext(plan, index)
        orig = rfc9171.decode_bundle(copy)
        if tnum is not None:
            tgt = [blk for blk in orig['blocks'] if blk['num'] == tnum][0]
            if name.endswith('cipher'):
                new = bytes([tgt['btsd'][0] ^ 1]) + tgt['btsd'][1:]
            else:
                new = tgt['btsd'][:-1] + bytes([tgt['btsd'][-1] ^ 0x80])
            copy = rfc9171.reencode(orig, {}, {tnum: dict(btsd=new)})
            stats['alt.field'] = stats.get('alt.field', 0) + 1
            stats['class.covered'] = stats.get('class.covered', 0) + 1
            stats['cov.target-btsd'] = stats.get('cov.target-btsd', 0) + 1
        stats['evals'] += 1
        run.keys.append((cfg, name))
        (rec, dels, _outs) = sc.deliver(har, copy)
        where = '%s, two confidentiality blocks (%s), accept %s' % (name, plan['order'], plan['accept'])
        if tnum is None:
            if len(dels) != 1:
                run.viols.append(('unmodified', 'not-delivered-two-bcb', 'an unmodified bundle with two confidentiality blocks was not delivered (actions %s reason %s error %s)' % (
                    rec['actions'], rec['reason'], rec['error'])))
                return
            if plan['accept'] and dels[0]['payload'] != plain:
                run.viols.append(('unmodified', 'wrong-plaintext-two-bcb', 'accepted bundle delivered %d octets that differ from the %d-octet plaintext' % (len(dels[0]['payload']), len(plain))))
                return
            if plan['accept']:
                ext = [blk for blk in dels[0].get('blocks', []) if blk[0] == 192]
                if ext and ext[0][2] != EXT_PLAIN:
                    run.viols.append(('unmodified', 'second-target-not-decrypted', 'the extension block protected by the second confidentiality block was handed over still encrypted'))
                    return
        else:
            if dels:
                leaked = dels[0]['payload'] == plain
                run.viols.append(('covered', ('plaintext-released:' if leaked else 'delivered:') + 'cov.target-btsd/two-bcb', 'delivered although a ciphertext was altered (%s)' % where))
                return
            if rec['error'] is None and ('delete' not in (rec['actions'] or []) or rec['reason'] not in (12, 13, 14, 15, 16)):
                run.viols.append(('covered', 'no-security-failure:two-bcb', 'not delivered but no security failure recorded: actions %s reason %s (%s)' % (rec['actions'], rec['reason'], where)))
                return


def _drive_report(run, plan, har):
    ''' The node that applies the confidentiality policy originates a bundle of its own: the status report about a bundle it
    was handed. Whatever leaves it with a confidentiality block over the payload must carry ciphertext there. '''
    stats = run.stats
    cfg = bc.digest({key: plan[key] for key in ('kind', 'plen', 'pri_crc', 'blk_crc', 'rflags')})
    stats['kind.report'] = 1
    for index in range(3):
        seqno = C03.seq_code(index)
        pri = dict(flags=plan['rflags'], crc_type=plan['pri_crc'], destination='dtn://s/app', source='dtn://x/', report_to='dtn://d/rpt',
                   create_time=820000000000, seqno=seqno, lifetime=3600000)
        subject = rfc9171.encode_bundle(pri, [dict(type=1, num=1, flags=0, crc_type=plan['blk_crc'], btsd=plaintext(plan, index))])
        mark = len(har.cl_out['s'])
        har.receive('s', subject)
        har.settle()
        stats['evals'] += 1
        run.keys.append((cfg, 'report', index))
        for out in har.cl_out['s'][mark:]:
            try:
                dec = rfc9171.decode_bundle(out['data'])
            except rfc9171.Malformed:
                continue
            if not dec['primary']['flags'] & 0x2:
                continue
            bcbs = sc.sec_blocks(dec, rfc9171.TYPE_BCB)
            if not bcbs:
                stats['probe.report_without_bcb'] = 1
                continue
            stats['probe.report_with_bcb'] = 1
            asb = bpsec_cose.parse_asb(bcbs[0]['btsd'])
            if 1 not in asb['targets']:
                continue
            wire_tgt = rfc9171.payload(dec)
            try:
                rep = rfc9171.decode_status_report(wire_tgt)
            except Exception:  # pylint: disable=broad-except
                rep = None
            if rep is not None:
                run.viols.append(('wire', 'report-plaintext-on-wire', 'a status report left the node with a confidentiality block over its payload, and the payload on the wire is the readable administrative record (%d octets)' % len(wire_tgt)))
                return
            (scope, addl) = bpsec_cose.scope_and_protected(asb)
            pix = asb['targets'].index(1)
            tgt = [blk for blk in dec['blocks'] if blk['num'] == 1][0]
            try:
                aad = bpsec_cose.external_aad(dec, bcbs[0], tgt, scope, asb['source_raw'], addl)
                got = bpsec_cose.dec0(sc.RAW_KEYS[_kid(plan).encode()], asb['results'][pix][0][1], aad, tgt['btsd'])
                rfc9171.decode_status_report(got)
            except Exception:  # pylint: disable=broad-except
                run.viols.append(('wire', 'report-reference-cannot-decrypt', 'the independent AES-GCM / AAD construction does not recover a status report from the encrypted report that was transmitted'))
                return
            (rec, dels, _outs) = sc.deliver(har, out['data'])
            if len(dels) != 1 or dels[0]['payload'] != got:
                run.viols.append(('unmodified', 'report-not-recovered', 'the receiver with the key did not recover the status report (deliveries %d, actions %s reason %s error %s)' % (
                    len(dels), rec['actions'], rec['reason'], rec['error'])))
                return


def _drive(run, plan, har):
    if plan['kind'] == 'two-bcb':
        return _drive_two(run, plan, har)
    if plan['kind'].startswith('report-'):
        return _drive_report(run, plan, har)
    stats = run.stats
    cfg = bc.digest({key: plan[key] for key in ('kind', 'plen', 'others', 'pri_crc', 'blk_crc', 'dst_key', 'accept', 'falg', 'scope', 'tgt_ext', 'split_assoc', 'typed_ext', 'svc_source', 'cbits', 'ivmode') if key in plan})
    stats['kind.' + ('foreign' if plan['kind'] == 'foreign' else plan['kind'][:4])] = 1
    stats['accept.' + ('on' if plan['accept'] else 'off')] = 1
    if plan.get('tgt_ext'):
        stats['kind.two_targets'] = 1
        if plan.get('split_assoc'):
            stats['kind.split_assoc'] = 1
    if plan['plen'] == 0:
        stats['plain.empty'] = 1
    if plan['kind'] != 'foreign' and plan.get('ivmode') in ('random', 'short'):
        stats['cfg.iv_' + plan['ivmode']] = 1
    seen_ivs = set()
    index = 0
    first = make_copy(plan, har, index)
    if first is None:
        run.viols.append(('setup', 'source-did-not-transmit', 'the source node transmitted nothing for the bundle to be encrypted'))
        return
    try:
        orig0 = rfc9171.decode_bundle(first)
    except rfc9171.Malformed as err:
        run.viols.append(('wire', 'source-output-malformed', 'the encrypted bundle the source transmitted is not well-formed: %s' % err))
        return
    bcbs = sc.sec_blocks(orig0, rfc9171.TYPE_BCB)
    plain = plaintext(plan, index)
    if not bcbs:
        run.viols.append(('wire', 'no-bcb', 'the transmitted bundle carries no confidentiality block although policy demands one'))
        return
    if plan['kind'] != 'foreign':
        diff = sc.policy_targets_covered(orig0, rfc9171.TYPE_BCB, [1, 10 if plan.get('typed_ext') else 192] if plan.get('tgt_ext') else [1])
        if diff:
            run.viols.append(('wire', 'policy-targets-not-covered', 'confidentiality: ' + diff))
            return
    # wire checks
    wire_tgt = rfc9171.payload(orig0)
    if len(plain) and wire_tgt == plain:
        run.viols.append(('wire', 'plaintext-on-wire', 'the target block data on the wire equals the plaintext'))
        return
    if len(plain) >= 8:
        stats['wire.no_plaintext_window'] = 1
        for pos in range(len(plain) - 7):
            if plain[pos:pos + 8] in first:
                run.viols.append(('wire', 'plaintext-window-on-wire', 'eight plaintext octets at offset %d appear in the transmitted bundle' % pos))
                return
    if len(wire_tgt) != len(plain) + 16:
        run.viols.append(('wire', 'ciphertext-length', 'target data on the wire has %d octets for a %d-octet plaintext (expected +16 tag)' % (len(wire_tgt), len(plain))))
        return
    # independent decryption of what the source produced
    asb = bpsec_cose.parse_asb(bcbs[0]['btsd'])
    (scope, addl) = bpsec_cose.scope_and_protected(asb)
    # the payload block (number 1) need not be the first target
    pix = asb['targets'].index(1) if 1 in asb['targets'] else 0
    tgt = [blk for blk in orig0['blocks'] if blk['num'] == asb['targets'][pix]][0]
    try:
        aad = bpsec_cose.external_aad(orig0, bcbs[0], tgt, scope, asb['source_raw'], addl)
        if plan['kind'].startswith('encw-'):
            got = bpsec_cose.dec_wrapped(sc.RAW_KEYS[_kid(plan).encode()], asb['results'][pix][0][1], aad, tgt['btsd'])
            if asb['results'][pix][0][0] != bpsec_cose.COSE_ENC:
                got = None
        else:
            got = bpsec_cose.dec0(sc.RAW_KEYS[_kid(plan).encode()], asb['results'][pix][0][1], aad, tgt['btsd'])
    except Exception as err:  # pylint: disable=broad-except
        got = None
    if got != plain:
        run.viols.append(('wire', 'reference-cannot-decrypt', 'the independent AES-GCM / AAD construction does not recover the plaintext from the transmitted bundle'))
        return
    # unmodified
    (rec, dels, _outs) = sc.deliver(har, first)
    stats['evals'] += 1
    run.keys.append((cfg, 'unmodified'))
    right = plan['dst_key'] == 'right'
    if not right:
        stats['alt.' + plan['dst_key'] + '-key'] = 1
        if dels:
            run.viols.append(('key', 'delivered-with-' + plan['dst_key'] + '-key', 'delivered although the receiver holds a %s key (payload is plaintext: %s)' % (
                plan['dst_key'], dels[0]['payload'] == plain)))
        elif rec['error'] is None and ('delete' not in (rec['actions'] or []) or rec['reason'] not in (12, 13, 14, 15, 16)):
            run.viols.append(('key', 'no-security-failure-' + plan['dst_key'] + '-key', 'decryption failure not recorded as a security failure (actions %s reason %s)' % (rec['actions'], rec['reason'])))
        return
    if len(dels) != 1:
        run.viols.append(('unmodified', 'not-delivered-' + plan['kind'], 'an unmodified encrypted bundle was not delivered (actions %s reason %s error %s)' % (rec['actions'], rec['reason'], rec['error'])))
        return
    if plan['accept'] and dels[0]['payload'] != plain:
        run.viols.append(('unmodified', 'wrong-plaintext', 'accepted bundle delivered %d octets that differ from the %d-octet plaintext' % (len(dels[0]['payload']), len(plain))))
        return
    if not plan['accept'] and dels[0]['payload'] not in (wire_tgt, plain):
        run.viols.append(('unmodified', 'payload-garbled', 'delivered payload is neither the ciphertext nor the plaintext'))
        return
    # alterations
    alterations = []
    wbytes = min(plan['wsize'], len(first))
    start = (plan['window'] % (len(first) - wbytes + 1)) * 8
    alterations += [('bit', pos) for pos in range(start, start + wbytes * 8)]
    alterations += [('field', fix) for fix in range(len(field_alterations(orig0)))]
    for (akind, aval) in alterations:
        index += 1
        copy = make_copy(plan, har, index)
        plain = plaintext(plan, index)
        if copy is not None and plan['kind'] != 'foreign':
            # every further bundle of the source is under the same policy: it carries a confidentiality block too, never the
            # plaintext, and never an initialization vector that was used before with this key
            try:
                later = rfc9171.decode_bundle(copy)
            except rfc9171.Malformed as err:
                run.viols.append(('wire', 'source-output-malformed', 'bundle #%d of the source is not well-formed: %s' % (index, err)))
                return
            lbcbs = sc.sec_blocks(later, rfc9171.TYPE_BCB)
            if not lbcbs or (len(plain) and rfc9171.payload(later) == plain):
                run.viols.append(('wire', 'later-bundle-not-encrypted', 'bundle #%d of the source left the node %s although policy demands encryption (IV configuration: %s)' % (
                    index, 'without a confidentiality block' if not lbcbs else 'with the plaintext as payload', plan.get('ivmode', 'list'))))
                return
            for res in bpsec_cose.parse_asb(lbcbs[0]['btsd'])['results']:
                ivec = cbor2.loads(res[0][1])[1].get(5)
                if ivec in seen_ivs:
                    run.viols.append(('wire', 'iv-reused', 'bundle #%d of the source reuses initialization vector %s' % (index, ivec.hex() if isinstance(ivec, bytes) else ivec)))
                    return
                seen_ivs.add(ivec)
        if copy is None or len(copy) != len(first):
            continue
        orig = rfc9171.decode_bundle(copy)
        if akind == 'bit':
            arr = bytearray(copy)
            arr[aval // 8] ^= 0x80 >> (aval % 8)
            alt = sc.fixup_crcs(bytes(arr)) or bytes(arr)
            name = 'bit %d' % aval
            stats['alt.bitflip'] = stats.get('alt.bitflip', 0) + 1
        else:
            (name, pchg, bchg) = field_alterations(orig)[aval]
            alt = rfc9171.reencode(orig, pchg, bchg)
            stats['alt.field'] = stats.get('alt.field', 0) + 1
        (klass, labels, cov) = classify(orig, alt)
        stats['class.' + klass] = stats.get('class.' + klass, 0) + 1
        for tag in cov:
            stats[tag] = stats.get(tag, 0) + 1
        stats['evals'] += 1
        run.keys.append((cfg, akind, aval))
        (rec, dels, _outs) = sc.deliver(har, alt)
        where = '%s of a %s bundle: changed %s' % (name, plan['kind'], sorted(labels))
        if klass == 'covered':
            if dels:
                leaked = len(plain) > 0 and dels[0]['payload'] == plain
                run.viols.append(('covered', ('plaintext-released:' if leaked else 'delivered:') + '+'.join(sorted(cov)), 'delivered although ciphertext or authenticated context was altered (%s)' % where))
                return
            try:
                still_local = rfc9171.decode_bundle(alt)['primary']['destination'].startswith('dtn://d/')
            except rfc9171.Malformed:
                still_local = False
            crc_dropped = rec['actions'] == [] and rec['error'] is None
            if rec['error'] is None and not crc_dropped and still_local and ('delete' not in rec['actions'] or rec['reason'] not in (12, 13, 14, 15, 16)):
                run.viols.append(('covered', 'no-security-failure:' + '+'.join(sorted(cov)), 'not delivered but no security failure recorded: actions %s reason %s (%s)' % (rec['actions'], rec['reason'], where)))
                return


def judge(run):
    return run.viols


def describe(run):
    counters = dict(run.wld.counters)
    counters.update({key: val for (key, val) in run.stats.items() if key != 'evals'})
    sample = dict(plan={key: val for (key, val) in run.plan.items() if key != 'window'}, evals=run.stats['evals'])
    return dict(nontrivial=True, keys=[bc.digest(key) for key in run.keys], evals=max(1, run.stats['evals']), sim_us=run.wld.now, steps=run.wld.steps,
                capped=run.wld.capped, counters=counters, sample=sample)
