''' C12 - a bundle with an unverifiable security block is never delivered.
Engine E5: destination node, MITM link substituting malformed security blocks. DESIGN 5/C12.
'''
import cbor2

from props import bp_common as bc
from props import bpsec_common as sc
from props import C03
from ref import rfc9171, bpsec_cose

ID = 'C12'
LEVEL = 'exploration'
RULE = ('per case 2-6 bundles for a local endpoint, each either clean (no security / valid BIB / valid BCB / valid BIB+BCB) or carrying one '
        'malformation built by ref/bpsec_cose.py: wrong key, unknown kid, altered target (also with the original content attached to the COSE message), unknown context id, target number absent, duplicate '
        'parameter ids and duplicate result ids (adjacent, or with another id between the two), result count 0 or 2, undecodable COSE message, security-block data that is not a CBOR sequence, '
        'two BIBs of which only the last is bad, good BIB + bad BCB and vice versa, random bit flips in the security block with CRC fix-up; '
        'acceptance on/off, key store contents and deletion-report request drawn per case. A clean bundle always follows a bad one. '
        'Non-trivial: at least one malformed bundle; distinct = digest of the case descriptors.')
COMPONENTS = bc.COMPONENTS
PROBES = tuple('bad.' + name for name in ('wrong-key', 'unknown-kid', 'altered-target', 'altered-target-attached-original', 'targets-not-array', 'unknown-context', 'target-absent', 'dup-param', 'dup-param-apart', 'dup-result', 'dup-result-apart', 'two-targets-second-altered', 'two-targets-first-altered', 'zero-results',
                                           'two-results', 'cose-garbage', 'asb-not-cbor', 'last-of-two-bibs', 'good-bib-bad-bcb', 'bad-bib-good-bcb', 'bitflip')) + (
    'good.none', 'good.bib', 'good.bcb', 'good.bib+bcb', 'accept.on', 'accept.off', 'probe.recv_exception', 'rpt.security_reason', 'dest.admin_endpoint')
ASSUMPTIONS = ['an exception leaving recv_bundle() is a probe; it counts only through its consequence (delivery)',
               'wrapped-key COSE messages are not exercised (pycose fork, see C03)']
CHUNK = 25
BUDGET = {'quick': 30, 'thorough': 400}

BAD = ('wrong-key', 'unknown-kid', 'altered-target', 'altered-target-attached-original', 'targets-not-array', 'unknown-context', 'target-absent', 'dup-param', 'dup-param-apart', 'dup-result', 'dup-result-apart', 'two-targets-second-altered', 'two-targets-first-altered', 'zero-results', 'two-results',
       'cose-garbage', 'asb-not-cbor', 'last-of-two-bibs', 'good-bib-bad-bcb', 'bad-bib-good-bcb', 'bitflip')
GOOD = ('none', 'bib', 'bcb', 'bib+bcb')


def gen(ch, tier):
    items = []
    for ix in range(1 + ch.pick('nitems', 3)):
        items.append(dict(kind='bad', what=ch.choice('bad', BAD), sec=ch.choice('badsec', ('bib', 'bib', 'bcb')), plen=ch.choice('plen', (1, 9, 40, 0)),
                          bit=ch.pick('bit', 1 << 16), dreport=ch.coin('dreport', 1, 2), crc=ch.choice('crc', (0, 1, 2)),
                          dest=ch.choice('dest', ('dtn://d/app', 'dtn://d/app', 'dtn://d/'))))
        items.append(dict(kind='good', what=ch.choice('good', GOOD), plen=ch.choice('plen', (1, 9, 40, 0)), dreport=False, crc=ch.choice('crc', (0, 1, 2)),
                          dest=ch.choice('dest', ('dtn://d/app', 'dtn://d/app', 'dtn://d/'))))
    return dict(scenario='bpsec_malformed', items=items, accept=ch.coin('accept', 1, 2))


def _altered(data):
    ''' The same octets with the last bit flipped (one more octet when there is none). '''
    return data[:-1] + bytes([data[-1] ^ 1]) if data else b'\x01'


def _asb_edit(blk, func):
    new = bpsec_cose.parse_asb(blk['btsd'])
    func(new)
    return dict(blk, btsd=bpsec_cose.encode_asb(new['targets'], new['source'], new['params'], new['results'], new['context_id'], new['flags']))


def build(item, index):
    ''' Returns (encoded bundle, expectation 'deliver'|'reject', plaintext payload). '''
    seqno = C03.seq_code(index)
    flags = rfc9171.FLAG_RPT_DELETION if item['dreport'] else 0
    pri = dict(flags=flags, crc_type=item['crc'], destination=item.get('dest', 'dtn://d/app'), source='dtn://s/', report_to='dtn://rpt/' if item['dreport'] else 'dtn:none',
               create_time=820000000000, seqno=seqno, lifetime=3600000)
    plain = bc.body(2000 + index, item['plen'])
    payload = dict(type=1, num=1, flags=0, crc_type=item['crc'], btsd=plain)
    ext = dict(type=192, num=4, flags=0, crc_type=item['crc'], btsd=b'\x45EXTBK')
    key = sc.RAW_KEYS[b'mac256']
    ekey = sc.RAW_KEYS[b'enc256']
    ivec = (b'IV' + seqno.to_bytes(4, 'big') * 3)[:12]
    what = item['what']

    def good_bib(target, num, kid=b'mac256', usekey=key):
        return bpsec_cose.make_bib(pri, target, usekey, kid, num=num, alg=5, source='dtn://s/', crc_type=item['crc'])

    def good_bcb(target, num, kid=b'enc256', usekey=ekey):
        return bpsec_cose.make_bcb(pri, target, usekey, kid, num, ivec, alg=3, source='dtn://s/', crc_type=item['crc'])

    if item['kind'] == 'good':
        if what == 'none':
            return (rfc9171.encode_bundle(pri, [ext, payload]), 'deliver', plain)
        if what == 'bib':
            if item.get('bit', 0) % 3 == 0:
                # one integrity block over two targets, both intact
                one = bpsec_cose.parse_asb(good_bib(ext, 2)['btsd'])
                two = bpsec_cose.parse_asb(good_bib(payload, 2)['btsd'])
                both = dict(good_bib(ext, 2), btsd=bpsec_cose.encode_asb([ext['num'], payload['num']], one['source'], one['params'], [one['results'][0], two['results'][0]], one['context_id'], one['flags']))
                return (rfc9171.encode_bundle(pri, [both, ext, payload]), 'deliver', plain)
            return (rfc9171.encode_bundle(pri, [good_bib(payload, 2), ext, payload]), 'deliver', plain)
        if what == 'bcb':
            (bcb, enc) = good_bcb(payload, 3)
            return (rfc9171.encode_bundle(pri, [bcb, ext, enc]), 'deliver', plain)
        (bcb, enc) = good_bcb(payload, 3)
        return (rfc9171.encode_bundle(pri, [good_bib(ext, 2), bcb, ext, enc]), 'deliver', plain)

    use_bcb = item['sec'] == 'bcb' and what not in ('last-of-two-bibs', 'good-bib-bad-bcb', 'bad-bib-good-bcb')
    if use_bcb:
        (sec, tgt) = good_bcb(payload, 3)
    else:
        (sec, tgt) = (good_bib(payload, 2), payload)
    blocks_after = [ext, tgt]
    if what == 'wrong-key':
        if use_bcb:
            (sec, tgt) = good_bcb(payload, 3, usekey=b'\xab' * 32)
            blocks_after = [ext, tgt]
        else:
            sec = good_bib(payload, 2, usekey=b'\xab' * 32)
    elif what == 'unknown-kid':
        if use_bcb:
            (sec, tgt) = good_bcb(payload, 3, kid=b'nobody')
            blocks_after = [ext, tgt]
        else:
            sec = good_bib(payload, 2, kid=b'nobody')
    elif what == 'altered-target':
        blocks_after = [ext, dict(tgt, btsd=_altered(tgt['btsd']))]
    elif what == 'altered-target-attached-original':
        # the target is altered while the COSE message carries the original content as an attached payload instead of nil
        original = tgt['btsd']
        blocks_after = [ext, dict(tgt, btsd=_altered(tgt['btsd']))]

        def attach(new):
            (rid, val) = new['results'][0][0]
            msg = cbor2.loads(val)
            msg[2] = original
            new['results'] = [[(rid, cbor2.dumps(msg))]]
        sec = _asb_edit(sec, attach)
    elif what == 'targets-not-array':
        # the first item of the security block (the target list) is not an array: the block cannot be decoded
        raw = sec['btsd']
        head = rfc9171.item_end(raw, 0)
        sec = dict(sec, btsd=cbor2.dumps(item.get('bit', 0) % 24) + raw[head:])
    elif what == 'unknown-context':
        sec = _asb_edit(sec, lambda new: new.update(context_id=99))
    elif what == 'target-absent':
        sec = _asb_edit(sec, lambda new: new.update(targets=[9]))
    elif what == 'dup-param':
        sec = _asb_edit(sec, lambda new: new.update(params=new['params'] + [(5, {0: 1, -1: 1})]))
    elif what == 'dup-param-apart':
        # the same parameter id twice with another parameter (an empty additional-unprotected map) between the two
        sec = _asb_edit(sec, lambda new: new.update(params=new['params'] + [(4, b'\xa0'), (5, {0: 1, -1: 1})]))
    elif what == 'dup-result-apart':
        sec = _asb_edit(sec, lambda new: new.update(results=[new['results'][0] + [(99, b'\x01')] + new['results'][0]]))
    elif what == 'dup-result':
        sec = _asb_edit(sec, lambda new: new.update(results=[new['results'][0] + new['results'][0]]))
    elif what == 'zero-results':
        sec = _asb_edit(sec, lambda new: new.update(results=[[]]))
    elif what == 'two-results':
        sec = _asb_edit(sec, lambda new: new.update(results=[new['results'][0] + [(99, b'\x01')]]))
    elif what == 'cose-garbage':
        sec = _asb_edit(sec, lambda new: new.update(results=[[(new['results'][0][0][0], b'\xff\x00garbage')]]))
    elif what == 'asb-not-cbor':
        sec = dict(sec, btsd=sec['btsd'][:len(sec['btsd']) // 2] + b'\xff\xff\x1f')
    elif what in ('two-targets-second-altered', 'two-targets-first-altered'):
        # one integrity block over two targets (extension block and payload), each with its own valid result; one target is altered
        one = bpsec_cose.parse_asb(good_bib(ext, 2)['btsd'])
        two = bpsec_cose.parse_asb(good_bib(payload, 2)['btsd'])
        both = dict(good_bib(ext, 2), btsd=bpsec_cose.encode_asb([ext['num'], payload['num']], one['source'], one['params'], [one['results'][0], two['results'][0]], one['context_id'], one['flags']))
        if what == 'two-targets-second-altered':
            return (rfc9171.encode_bundle(pri, [both, ext, dict(payload, btsd=_altered(plain))]), 'reject', plain)
        return (rfc9171.encode_bundle(pri, [both, dict(ext, btsd=_altered(ext['btsd'])), payload]), 'reject', plain)
    elif what == 'last-of-two-bibs':
        first = bpsec_cose.make_bib(pri, ext, key, b'mac256', num=5, alg=5, source='dtn://s/', crc_type=item['crc'])
        bad = good_bib(payload, 2, usekey=b'\xab' * 32)
        return (rfc9171.encode_bundle(pri, [first, bad, ext, payload]), 'reject', plain)
    elif what == 'good-bib-bad-bcb':
        (bcb, enc) = good_bcb(payload, 3, usekey=b'\xab' * 32)
        return (rfc9171.encode_bundle(pri, [good_bib(ext, 2), bcb, ext, enc]), 'reject', plain)
    elif what == 'bad-bib-good-bcb':
        (bcb, enc) = good_bcb(payload, 3)
        bad = bpsec_cose.make_bib(pri, ext, b'\xab' * 32, b'mac256', num=2, alg=5, source='dtn://s/', crc_type=item['crc'])
        return (rfc9171.encode_bundle(pri, [bad, bcb, ext, enc]), 'reject', plain)
    data = rfc9171.encode_bundle(pri, [sec] + blocks_after)
    if what == 'bitflip':
        dec = rfc9171.decode_bundle(data)
        secblk = [blk for blk in dec['blocks'] if blk['type'] in (11, 12)][0]
        (lo, hi) = secblk['btsd_range']
        pos = lo * 8 + item['bit'] % ((hi - lo) * 8)
        arr = bytearray(data)
        arr[pos // 8] ^= 0x80 >> (pos % 8)
        fixed = sc.fixup_crcs(bytes(arr))
        if fixed is None:
            return (bytes(arr), 'any', plain)
        # the flip may land in an unprotected header (kid): classify with the BIB/BCB rules
        alt = rfc9171.decode_bundle(fixed)
        labels = sc.describe_change(dec, alt)
        covered = any(lab.split(':', 2)[2] in ('source', 'scope', 'cose-protected', 'cose-tag', 'targets', 'context_id', 'result-set', 'param-set', 'cose-malformed', 'malformed')
                      for lab in labels if lab.startswith('asb:'))
        return (fixed, 'reject' if covered else 'any', plain)
    return (data, 'reject', plain)


class Run:
    pass


def execute(plan, sched, verbose=False):
    har = sc.make_world(sched, [], list(sc.KEYS.values()), plan['accept'], verbose)
    run = Run()
    run.har = har
    run.wld = har.wld
    run.plan = plan
    run.viols = []
    run.stats = {}
    try:
        _drive(run, plan, har)
    finally:
        har.close()
    return run


def _drive(run, plan, har):
    stats = run.stats
    stats['accept.' + ('on' if plan['accept'] else 'off')] = 1
    for (ix, item) in enumerate(plan['items']):
        (data, expect, plain) = build(item, ix)
        stats['%s.%s' % (item['kind'], item['what'])] = 1
        if item.get('dest') == 'dtn://d/':
            stats['dest.admin_endpoint'] = 1
        (rec, dels, outs) = sc.deliver(har, data)
        if rec['error']:
            stats['probe.recv_exception'] = stats.get('probe.recv_exception', 0) + 1
        where = 'item #%d (%s %s%s, accept %s)' % (ix, item['kind'], item['what'], '/' + item['sec'] if item['kind'] == 'bad' else '', plan['accept'])
        if expect == 'reject':
            if dels:
                leaked = dels[0]['payload'] == plain
                run.viols.append(('delivered', item['what'] + ('/' + item['sec']) + ('-accept' if plan['accept'] else ''), '%s was delivered to the application (%s)' % (
                    where, 'plaintext' if leaked else 'payload as received')))
                return
            if rec['error'] is None:
                if 'delete' not in (rec['actions'] or []) or rec['reason'] not in (12, 13, 14, 15, 16):
                    run.viols.append(('not-marked', item['what'] + '/' + item['sec'], '%s: not delivered but not marked deleted with a security reason (actions %s, reason %r)' % (
                        where, rec['actions'], rec['reason'])))
                    return
                if item['dreport']:
                    (decoded, _errs) = bc.decode_outputs(outs)
                    rpts = [dec for dec in decoded if bc.is_admin(dec)]
                    good = False
                    for rpt in rpts:
                        try:
                            body = rfc9171.decode_status_report(rfc9171.payload(rpt))
                        except rfc9171.Malformed:
                            continue
                        if 'deleted' in body['asserted'] and body['reason'] in (12, 13, 14, 15, 16):
                            good = True
                    if good:
                        stats['rpt.security_reason'] = 1
                    else:
                        run.viols.append(('report', item['what'] + '/' + item['sec'], '%s: the requested deletion report with a security reason never appeared' % where))
                        return
        elif expect == 'deliver':
            if len(dels) != 1:
                prev = plan['items'][ix - 1]['what'] if ix else None
                run.viols.append(('clean-not-delivered', '%s-after-%s' % (item['what'], prev), '%s was not delivered (actions %s reason %r error %s)' % (
                    where, rec['actions'], rec['reason'], rec['error'])))
                return
            got = dels[0]
            has_bcb = item['what'] in ('bcb', 'bib+bcb')
            if has_bcb and not plan['accept']:
                pass   # delivered still encrypted
            elif got['payload'] != plain:
                run.viols.append(('clean-altered', item['what'], '%s: delivered payload differs from the original' % where))
                return
            sectypes = sorted(typ for (typ, _num, _data) in got['blocks'] if typ in (11, 12))
            want = [] if plan['accept'] else sorted(([11] if 'bib' in item['what'] else []) + ([12] if 'bcb' in item['what'] else []))
            if sectypes != want:
                run.viols.append(('acceptance', '%s-accept-%s' % (item['what'], 'on' if plan['accept'] else 'off'), '%s: delivered with security blocks %r, expected %r' % (where, sectypes, want)))
                return
            if (192, 4, b'\x45EXTBK') not in [(typ, num, data) for (typ, num, data) in got['blocks']]:
                run.viols.append(('clean-altered', 'ext-block', '%s: extension block missing or changed on delivery' % where))
                return


def judge(run):
    return run.viols


def describe(run):
    counters = dict(run.wld.counters)
    counters.update(run.stats)
    plan = run.plan
    sample = dict(accept=plan['accept'], items=[(item['kind'], item['what'], item.get('sec')) for item in plan['items']])
    return dict(nontrivial=True, key=bc.digest(plan), sim_us=run.wld.now, steps=run.wld.steps, capped=run.wld.capped, counters=counters, sample=sample)
