''' C09 - TCPCL termination is graceful, complete and always finishes.
Engine E1. DESIGN 5/C09.
'''
from scenarios import tcpcl_pair
from props import tcpcl_common as tc

ID = 'C09'
LEVEL = 'exploration'
RULE = ('C01 workloads plus 1-3 termination requests (terminate(reason) / Agent.shutdown / close on either side) and, in a share '
        'of runs, faults (stall, slow node, reset, kill = FIN from a dead process, black-hole), each placed at a drawn time, very '
        'early (contact/session negotiation), after the n-th socket write of a side, or after the n-th occurrence of a D-Bus '
        'signal (transfer started / intermediate / finished, state change); bounded buffers and short writes stay enabled. '
        'A fifth of the runs open two contacts between the same two agents and call Agent.shutdown() (or terminate() on one contact) while transfers run on the other; no faults there, so every started transfer must complete, every terminated contact must exchange SESS_TERM and close, and a contact that was not terminated must stay open; in half of the terminate-one-contact runs Agent.shutdown() follows 0-1 s later (the contact may still be ending), and a shutdown that arrives while a contact is still negotiating must leave nothing open. Non-trivial: a SESS_TERM, close or fault actually occurred; distinct = distinct event-history digests.')
COMPONENTS = tc.COMPONENTS
PROBES = ('wire.SESS_TERM', 'probe.term_mid_transfer', 'probe.simultaneous_term', 'probe.term_before_established',
          'probe.unstarted_at_term', 'fault.reset', 'fault.kill', 'fault.blackhole', 'fault.stall', 'tcp.short_write', 'engine.multi_contact', 'fault.spurious_readable', 'probe.shutdown_while_ending', 'probe.agent_stop')
ASSUMPTIONS = ['as C01', 'bounded liveness: both contacts closed within the 60 s horizon (which exceeds every stall and idle time drawn)']
CHUNK = 10


def _gen_multi(ch):
    ''' Two contacts between the same two agents; Agent.shutdown() (or terminate on one contact) while the other one is busy. '''
    prof = dict(backpressure=True)
    cfg = {'A': tcpcl_pair.gen_config(ch, 'A', prof), 'P': tcpcl_pair.gen_config(ch, 'P', prof)}
    sends = []
    for ix in range(1 + ch.pick('nsend', 5)):
        side = ch.choice('s.side', ('A', 'P'))
        seg = min(cfg[side]['segment_size_tx_initial'], cfg['P' if side == 'A' else 'A']['segment_size_mru'])
        size = min(ch.choice('s.len', (1, 500, 5000, 40000, 150000)), 150 * seg)
        sends.append(dict(t=3000 + 1000 * ch.pick('s.t', 40), side=side, cx=ch.pick('s.cx', 2), len=size, tag=ix + 1))
    term = dict(side=ch.choice('t.side', ('A', 'P')), kind=ch.choice('t.kind', ('shutdown', 'shutdown', 'terminate0', 'terminate1', 'stop')))
    if ch.coin('t.trig', 2, 3):
        term['after'] = ['tcp-send', ch.choice('t.ts', ('A', 'P')), 6 + ch.pick('t.nth', 40)]
        term['delay'] = ch.choice('t.delay', (0, 30, 300))
    else:
        term['t'] = 3000 + 1000 * ch.pick('t.t', 60)
    if term['kind'] != 'shutdown' and ch.coin('t2', 1, 2):
        # ... and the whole agent is shut down a moment later, while that contact may still be ending
        term['then_shutdown'] = ch.choice('t2.delay', (0, 100, 2000, 50000, 1000000))
    return dict(scenario='tcpcl_multi', cfg=cfg, chunk_size=ch.choice('chunk', (10240, 10240, 1000, 65536)),
                net=dict(tcp_capacity=ch.choice('cap', (65536, 4096, 262144)), short_write_16=ch.choice('shortw', (0, 0, 4))),
                sends=sorted(sends, key=lambda item: item['t']), term=term)


def gen(ch, tier):
    if ch.coin('multi', 1, 5):
        return _gen_multi(ch)
    if ch.coin('scripted', 1, 7):
        # one real agent and a conforming scripted peer that, after SESS_TERM went both ways, waits for the agent to close
        # (between two real agents the other side's own close hides an agent that would never close by itself); short writes
        # and a bounded socket buffer place back-pressure on the agent's last messages
        from props import C18
        plan = C18._gen_scripted(ch)
        plan['terminate'] = ch.choice('sterm2', ('peer', 'peer', 'user'))
        plan['peer_waits'] = True
        return plan
    prof = dict(min_one=False, backpressure=True, max_bundles=4, liveness=False, terminate=True,
                big=32768, max_segments=200, allow_zero=ch.coin('allow0', 1, 8))
    mode = ch.weighted('mode', (6, 3, 2))
    if mode == 1:
        prof['faults'] = True
        prof['fault_kinds'] = ('stall', 'stall', 'slow', 'reset', 'kill', 'blackhole', 'spurious', 'spurious')
    elif mode == 2:
        prof['timers'] = True
    return tcpcl_pair.gen_plan(ch, prof)


class _MRun:
    pass


def _execute_multi(plan, sched, verbose):
    from dsim.world import CallbackHang
    from ref import rfc9174
    hplan = dict(plan, ops=[], faults=[], prof={}, horizon=60 * tcpcl_pair.SEC)
    har = tcpcl_pair.Harness(hplan, sched, verbose)
    wld = har.wld
    run = _MRun()
    run.har = har
    run.wld = wld
    run.plan = plan
    run.viols = []
    run.stats = {'engine.multi_contact': 1}
    queued = []          # (seq, side, cx, tid, len)
    term_seq = {}

    def connect(_item):
        har.call('A', tcpcl_pair.AGENT_PATH, 'connect', tcpcl_pair.ADDR['P'], 4556)

    def send(item):
        paths = har.opened[item['side']]
        if len(paths) <= item['cx'] or paths[item['cx']] in har.closed[item['side']]:
            return
        ret = har.call(item['side'], paths[item['cx']], 'send_bundle_data', tcpcl_pair.body_for(item['tag'], item['len']))
        if isinstance(ret, str):
            queued.append((wld.seq, item['side'], item['cx'], str(ret), item['len']))

    def term(item):
        term_seq['seq'] = wld.seq
        # terminating a session that is not yet established raises (E1 counts that as probe.term_before_established)
        est = set(evt[4] for evt in wld.hist if evt[3] == 'dbus-signal' and evt[2] == item['side'] and evt[5] == 'session_state_changed' and evt[7][0] == 'established')
        term_seq['all_established'] = len(har.opened[item['side']]) >= 2 and all(path in est for path in har.opened[item['side']][:2])
        if item['kind'] in ('shutdown', 'stop'):
            har.call(item['side'], tcpcl_pair.AGENT_PATH, item['kind'])
        else:
            paths = har.opened[item['side']]
            cx = int(item['kind'][-1])
            if len(paths) > cx:
                har.call(item['side'], paths[cx], 'terminate', 0)
            if item.get('then_shutdown') is not None and item['kind'] != 'stop':
                wld.at(wld.now + item['then_shutdown'], shutdown_after, item)

    def shutdown_after(item):
        term_seq['shutdown_after'] = wld.seq
        run.stats['probe.shutdown_while_ending'] = 1
        har.call(item['side'], tcpcl_pair.AGENT_PATH, 'shutdown')

    wld.at(0, connect, None)
    wld.at(1500, connect, None)
    for item in plan['sends']:
        wld.at(item['t'], send, item)
    har._schedule(plan['term'], term)
    try:
        wld.run(until_us=60 * tcpcl_pair.SEC)
    except CallbackHang:
        run.viols.append(('close', 'callback-hang', 'a callback never returned (watchdog)'))
        wld.cur = None
        return run
    # -- oracle ---------------------------------------------------------------
    sigs = {}
    for evt in wld.hist:
        if evt[3] == 'dbus-signal':
            sigs.setdefault((evt[2], evt[4], evt[5]), []).append((evt[0], evt[7]))
    if 'seq' not in term_seq or len(har.opened['A']) < 2 or len(har.opened['P']) < 2:
        run.stats['multi.not_reached'] = 1
        return run
    if plan['term']['kind'] == 'stop':
        # Agent.stop(): immediate, no SESS_TERM exchange is owed, but every session of that agent is disconnected - and the peer, seeing
        # the disconnect, closes its ends too
        run.stats['probe.agent_stop'] = 1
        tside = plan['term']['side']
        for side in ('A', 'P'):
            for (cx, path) in enumerate(har.opened[side]):
                if path not in har.closed[side]:
                    run.viols.append(('close', 'half-open-after-stop' + ('' if side == tside else '-peer'), '%s still holds contact %d open at the end of the run although the agent of %s was stopped' % (side, cx, tside)))
        return run
    if not term_seq.get('all_established'):
        run.stats['probe.term_before_established'] = 1
        if plan['term']['kind'] == 'shutdown':
            # Agent.shutdown() while a contact is still negotiating: no session is to be left half-open, whatever state it was in
            tside = plan['term']['side']
            for (cx, path) in enumerate(har.opened[tside]):
                if path not in har.closed[tside]:
                    run.viols.append(('close', 'half-open-after-early-shutdown', '%s still holds contact %d open at the end of the run although the agent was shut down' % (tside, cx)))
            return run
        run.stats['multi.not_reached'] = 1
        return run
    shutdown = plan['term']['kind'] == 'shutdown' or 'shutdown_after' in term_seq
    tside = plan['term']['side']
    busy_other = False
    for cx in range(2):
        terminated = shutdown or int(plan['term']['kind'][-1]) == cx
        conn = har.net.conns[cx] if len(har.net.conns) > cx else None
        wire = {'A': [], 'P': []}
        if conn is not None:
            for (side, pipe) in (('A', conn.a2b), ('P', conn.b2a)):
                dec = rfc9174.StreamDecoder()
                for (seq, when, data) in pipe.tap:
                    wire[side].extend(dec.feed(data, (seq, when)))
        for side in ('A', 'P'):
            peer = 'P' if side == 'A' else 'A'
            path = har.opened[side][cx]
            ppath = har.opened[peer][cx]
            nterm = sum(1 for msg in wire[side] if msg['kind'] == 'SESS_TERM')
            if nterm > 1:
                run.viols.append(('sess-term', 'more-than-one', '%s wrote %d SESS_TERM messages on contact %d' % (side, nterm, cx)))
            established = any(args[0] == 'established' for (_seq, args) in sigs.get((side, path, 'session_state_changed'), []))
            pest = any(args[0] == 'established' for (_seq, args) in sigs.get((peer, ppath, 'session_state_changed'), []))
            if not (established and pest):
                continue
            started = sigs.get((side, path, 'send_bundle_started'), [])
            fin_tx = {args[0]: args for (_seq, args) in sigs.get((side, path, 'send_bundle_finished'), [])}
            fin_rx = {args[0]: args for (_seq, args) in sigs.get((peer, ppath, 'recv_bundle_finished'), [])}
            ending = [seq for (seq, args) in sigs.get((side, path, 'session_state_changed'), []) if args[0] == 'ending']
            for (sseq, args) in started:
                tid = args[0]
                if ending and sseq > ending[0]:
                    run.viols.append(('new-transfer', 'started-after-term', '%s started transfer %s on contact %d after it began terminating' % (side, tid, cx)))
                    continue
                if sseq < term_seq['seq'] and tid not in fin_tx:
                    busy_other = True
                if tid not in fin_rx or fin_rx[tid][2] != 'success':
                    run.viols.append(('in-progress', 'not-delivered-multi-contact', 'transfer %s of %s on contact %d was started and never completed at %s (%s by %s)' % (
                        tid, side, cx, peer, plan['term']['kind'], tside)))
                elif tid not in fin_tx or fin_tx[tid][2] != 'success':
                    run.viols.append(('in-progress', 'not-acknowledged-multi-contact', 'transfer %s of %s on contact %d was delivered but %s never reported success' % (tid, side, cx, side)))
            if terminated:
                started_ids = set(args[0] for (_seq, args) in started)
                for (_qseq, qside, qcx, tid, _len) in queued:
                    if qside == side and qcx == cx and tid not in started_ids and tid not in fin_tx:
                        run.viols.append(('unstarted', 'silently-lost', 'transfer %s queued at %s on contact %d was neither started nor reported as not sent' % (tid, side, cx)))
                if nterm == 0:
                    run.viols.append(('sess-term', 'missing-multi-contact', '%s never wrote a SESS_TERM on contact %d although it was terminated' % (side, cx)))
                if path not in har.closed[side]:
                    run.viols.append(('close', 'half-open-multi-contact', '%s still holds contact %d open at the end of the run' % (side, cx)))
            elif path in har.closed[side]:
                run.viols.append(('close', 'other-contact-closed', 'terminate on one contact closed contact %d of %s as well' % (cx, side)))
    if busy_other:
        run.stats['probe.term_mid_transfer'] = 1
    run.stats['wire.SESS_TERM'] = 1
    return run


def execute(plan, sched, verbose=False):
    if plan.get('scenario') == 'tcpcl_multi':
        return _execute_multi(plan, sched, verbose)
    if plan.get('scenario') == 'tcpcl_scripted':
        from props import C18
        run = C18._execute_scripted(plan, sched, verbose)
        # of what that engine judges, the termination clauses belong here
        run.viols = [('close', viol[1] + '-scripted-peer', viol[2]) for viol in run.viols if viol[0] == 'idle' and (viol[1].startswith('not-closed') or viol[1].startswith('no-sess-term-reply'))]
        run.scripted = True
        return run
    return tcpcl_pair.run_plan(plan, sched, verbose)


def judge(run):
    if isinstance(run, _MRun) or getattr(run, 'scripted', False):
        return run.viols
    obs = tc.Obs(run)
    run.obs = obs
    viols = tc.check_termination(obs)
    viols += [viol for viol in tc.check_grammar(obs) if viol[0] == 'term']
    return viols


def describe(run):
    if getattr(run, 'scripted', False):
        counters = dict(run.wld.counters)
        counters.update(run.stats)
        counters['engine.scripted'] = 1
        return dict(nontrivial=bool(run.stats.get('wire.SESS_TERM')), key=run.wld.digest(), sim_us=run.wld.now, steps=run.wld.steps, capped=run.wld.capped,
                    counters=counters, sample=dict(engine='scripted', role=run.plan['role'], terminate=run.plan['terminate'], ops=run.plan['ops'][:10]))
    if isinstance(run, _MRun):
        counters = dict(run.wld.counters)
        counters.update(run.stats)
        return dict(nontrivial=not run.stats.get('multi.not_reached'), key=run.wld.digest(), sim_us=run.wld.now, steps=run.wld.steps, capped=run.wld.capped,
                    counters=counters, sample=dict(engine='multi_contact', term=run.plan['term'], sends=run.plan['sends'][:6]))
    obs = getattr(run, 'obs', None) or tc.Obs(run)
    extra = {}
    ending = {side: tc.state_times(obs, side).get('ending') for side in ('A', 'P')}
    terms = {side: [msg for msg in obs.wire[side] if msg['kind'] == 'SESS_TERM'] for side in ('A', 'P')}
    if all(terms.values()) and not any(msg['flags'] & 1 for side in terms for msg in terms[side]):
        extra['probe.simultaneous_term'] = 1
    for side in ('A', 'P'):
        inprog = False
        for msg in obs.wire[side]:
            if msg['kind'] == 'SESS_TERM' and inprog:
                extra['probe.term_mid_transfer'] = 1
            elif msg['kind'] == 'XFER_SEGMENT':
                inprog = not msg['flags'] & 1
        if ending[side]:
            started = set(item[4][0] for item in obs.sig(side, 'send_bundle_started') if item[0] < ending[side][0])
            if any(item[0] < ending[side][0] and item[1] not in started for item in run.queued[side]):
                extra['probe.unstarted_at_term'] = 1
    for call in run.calls:
        if call[3] in ('terminate', 'shutdown') and 'established' not in tc.state_times(obs, call[2]):
            extra['probe.term_before_established'] = 1
    if obs.escaped:
        extra['probe.escaped_exception'] = len(obs.escaped)
    info = tc.describe(obs, extra)
    info['nontrivial'] = bool(obs.terminated())
    return info
