''' C09 - TCPCL termination is graceful, complete and always finishes.
Engine E1. DESIGN 5/C09.
'''
from scenarios import tcpcl_pair
from props import tcpcl_common as tc

ID = 'C09'
LEVEL = 'exploration'
RULE = ('C01 workloads plus 1-3 termination requests (terminate(reason) / Agent.shutdown / close on either side) and, in a share '
        'of runs, faults (stall, slow node, reset, kill = FIN from a dead process, black-hole), each placed at a drawn time, very '
        'early (contact/session negotiation), after the n-th socket write of a side, or after the n-th occurrence of a D-Bus '
        'signal (transfer started / intermediate / finished, state change); bounded buffers and short writes stay enabled. '
        'Non-trivial: a SESS_TERM, close or fault actually occurred; distinct = distinct event-history digests.')
COMPONENTS = tc.COMPONENTS
PROBES = ('wire.SESS_TERM', 'probe.term_mid_transfer', 'probe.simultaneous_term', 'probe.term_before_established',
          'probe.unstarted_at_term', 'fault.reset', 'fault.kill', 'fault.blackhole', 'fault.stall', 'tcp.short_write')
ASSUMPTIONS = ['as C01', 'bounded liveness: both contacts closed within the 60 s horizon (which exceeds every stall and idle time drawn)']
CHUNK = 10


def gen(ch, tier):
    prof = dict(min_one=False, backpressure=True, max_bundles=4, liveness=False, terminate=True,
                big=32768, max_segments=200, allow_zero=ch.coin('allow0', 1, 8))
    mode = ch.weighted('mode', (6, 3, 2))
    if mode == 1:
        prof['faults'] = True
    elif mode == 2:
        prof['timers'] = True
    return tcpcl_pair.gen_plan(ch, prof)


def execute(plan, sched, verbose=False):
    return tcpcl_pair.run_plan(plan, sched, verbose)


def judge(run):
    obs = tc.Obs(run)
    run.obs = obs
    viols = tc.check_termination(obs)
    viols += [viol for viol in tc.check_grammar(obs) if viol[0] == 'term']
    return viols


def describe(run):
    obs = getattr(run, 'obs', None) or tc.Obs(run)
    extra = {}
    ending = {side: tc.state_times(obs, side).get('ending') for side in ('A', 'P')}
    terms = {side: [msg for msg in obs.wire[side] if msg['kind'] == 'SESS_TERM'] for side in ('A', 'P')}
    if all(terms.values()) and not any(msg['flags'] & 1 for side in terms for msg in terms[side]):
        extra['probe.simultaneous_term'] = 1
    for side in ('A', 'P'):
        inprog = False
        for msg in obs.wire[side]:
            if msg['kind'] == 'SESS_TERM' and inprog:
                extra['probe.term_mid_transfer'] = 1
            elif msg['kind'] == 'XFER_SEGMENT':
                inprog = not msg['flags'] & 1
        if ending[side]:
            started = set(item[4][0] for item in obs.sig(side, 'send_bundle_started') if item[0] < ending[side][0])
            if any(item[0] < ending[side][0] and item[1] not in started for item in run.queued[side]):
                extra['probe.unstarted_at_term'] = 1
    for call in run.calls:
        if call[3] in ('terminate', 'shutdown') and 'established' not in tc.state_times(obs, call[2]):
            extra['probe.term_before_established'] = 1
    if obs.escaped:
        extra['probe.escaped_exception'] = len(obs.escaped)
    info = tc.describe(obs, extra)
    info['nontrivial'] = bool(obs.terminated())
    return info
