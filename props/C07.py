''' C07 - TCPCL message framing is independent of how TCP chunks the stream.
Engine E2: one real agent, the peer is the independent RFC 9174 encoder; the
variable is where the stream is cut into socket reads. DESIGN 5/C07.
'''
from scenarios import tcpcl_peer
from scenarios.tcpcl_pair import body_for
from props import tcpcl_common as tc
from ref import rfc9174

ID = 'C07'
LEVEL = 'exploration'
RULE = ('(an endpoint that closes the connection in the middle of a valid stream which asked for nothing of the kind is a violation) ' + 'legal peer streams built by the reference encoder (contact header, SESS_INIT with 0-3 extension items, transfers with '
        'zero-length / boundary / large segments and extension lists, KEEPALIVE incl. as last octet, MSG_REJECT, XFER_ACK/XFER_REFUSE for '
        'the agent\'s own transfers, SESS_TERM) against a real agent in passive or active role; cut patterns: whole, 1-octet dribble, a '
        'single cut at every position, cuts at every message boundary +-1, chooser-random cuts, and all 2^(w-1) patterns over a drawn '
        'window of w<=10 octets. After every delivered chunk (loop quiescent) the messages handed to the session handler must equal '
        'the reference decode of the delivered prefix and the receive buffer must hold exactly the undecoded tail. One evaluation = '
        'one (stream, cut pattern); non-trivial = at least one cut falls strictly inside a message; distinct = (stream digest, cut set).')
COMPONENTS = tc.COMPONENTS
PROBES = ('cut.inside_message', 'cut.inside_contact', 'probe.keepalive_last', 'probe.zero_length_segment', 'probe.ext_items',
          'mode.exhaustive-window', 'mode.single', 'mode.dribble', 'mode.boundaries', 'mode.random', 'probe.victim_transfer_acked', 'probe.non_ascii_node_id', 'probe.reply_glued_to_next_message')
ASSUMPTIONS = ['streams follow the legal grammar with known message types and version 4 (others belong to C17)',
               'a chunk is read by the agent in one recv when it is no larger than CHUNK_SIZE; larger chunks are read in CHUNK_SIZE pieces']
CHUNK = 20
BUDGET = {'quick': 40, 'thorough': 600}


def gen(ch, tier):
    role = ch.choice('role', ('passive', 'active'))
    mru = ch.choice('mru', (64, 1000, 10 * 1024**2))
    cfg = dict(node_id=ch.choice('vnode', ('dtn://v/', 'dtn://v/', 'dtn://n\u00f6de-\u20ac/')), keepalive_time=0, idle_time=0, segment_size_mru=mru,
               segment_size_tx_initial=ch.choice('txi', (16, 200, 104857)), tls_enable=False, enable_test=[])
    items = [dict(kind='CONTACT', flags=0)]
    ext = []
    for _ in range(ch.weighted('init.next', (4, 2, 1, 1))):
        ext.append([0, ch.choice('init.ext.t', (0xFF, 0x7777, 0x0002)), ch.pick('init.ext.len', 12)])
    # the private type 0xFF has a fixed 10-octet layout in the repo
    ext = [[flg, typ, 10 if typ == 0xFF else size] for (flg, typ, size) in ext]
    items.append(dict(kind='SESS_INIT', keepalive=ch.choice('ka', (0, 0, 30)), segment_mru=ch.choice('pmru', (1 << 20, 50, 2**64 - 1)),
                      nodeid='dtn://x/' + 'n' * ch.pick('nid', 5), ext=ext))
    nbody = 1 + ch.pick('nbody', 8)
    tid = 1
    tag = 100
    victim_sends = []
    for _ in range(nbody):
        kind = ch.weighted('body', (5, 3, 1, 2))
        if kind == 0:
            nseg = 1 + ch.weighted('nseg', (4, 3, 2, 1))
            total_ext_extra = ch.coin('segext', 1, 4)
            sizes = []
            for _s in range(nseg):
                sizes.append(min(mru, ch.choice('seglen', (0, 1, 2, 23, 24, 255, 256, 1000, 5000))))
            items.append(dict(kind='XFER', tid=tid, tag=tag, sizes=sizes, extra_ext=bool(total_ext_extra)))
            tid += 1
            tag += 1
        elif kind == 1:
            items.append(dict(kind='KEEPALIVE'))
        elif kind == 2:
            items.append(dict(kind='MSG_REJECT', rej_msg_id=ch.choice('rej', (1, 4, 7)), reason=ch.choice('rejr', (1, 2, 3))))
        else:
            victim_sends.append(dict(after=len(items), len=ch.choice('vlen', (0, 1, 40, 700)), tag=tag,
                                     answer=ch.choice('vans', ('ack', 'ack', 'refuse'))))
            tag += 1
    tail = ch.weighted('tail', (3, 2, 2))
    if tail == 1:
        items.append(dict(kind='KEEPALIVE'))
    elif tail == 2:
        items.append(dict(kind='SESS_TERM', flags=0, reason=ch.choice('termr', (0, 1, 3))))
    mode = ch.choice('mode', ('single', 'exhaustive-window', 'dribble', 'boundaries', 'random', 'whole', 'single', 'exhaustive-window'))
    plan = dict(scenario='tcpcl_stream', role=role, cfg=cfg, chunk_size=ch.choice('chunk', (10240, 10240, 3, 100)),
                items=items, victim_sends=victim_sends, mode=mode, glue=ch.coin('glue', 1, 2),
                p1=ch.pick('p1', 1 << 20), p2=ch.pick('p2', 1 << 20), p3=ch.pick('p3', 1 << 10))
    return plan


def build_stream(plan):
    ''' Static part of the peer stream: list of (encoded bytes, item index). '''
    out = []
    for (ix, item) in enumerate(plan['items']):
        kind = item['kind']
        if kind == 'XFER':
            body = body_for(item['tag'], sum(item['sizes']))
            pos = 0
            for (six, size) in enumerate(item['sizes']):
                flags = (rfc9174.FLAG_START if six == 0 else 0) | (rfc9174.FLAG_END if six == len(item['sizes']) - 1 else 0)
                ext = []
                if six == 0:
                    ext.append(rfc9174.xfer_length_ext(len(body)))
                    if item.get('extra_ext'):
                        ext.append(dict(flags=0, type=0x4321, value=b'\x01\x02\x03'))
                out.append((rfc9174.encode(dict(kind='XFER_SEGMENT', flags=flags, transfer_id=item['tid'], ext=ext,
                                                data=body[pos:pos + size])), ix))
                pos += size
        elif kind == 'SESS_INIT':
            ext = [dict(flags=flg, type=typ, value=bytes(range(size))) for (flg, typ, size) in item['ext']]
            out.append((rfc9174.encode(dict(kind='SESS_INIT', keepalive=item['keepalive'], segment_mru=item['segment_mru'],
                                            nodeid=item['nodeid'].encode(), ext=ext)), ix))
        else:
            out.append((rfc9174.encode(item), ix))
    return out


def cut_points(plan, stream_len, bounds):
    ''' Sorted cut offsets (strictly inside the stream). '''
    mode = plan['mode']
    if stream_len < 2:
        return []
    if mode == 'whole':
        return []
    if mode == 'dribble':
        return list(range(1, stream_len)) if stream_len <= 600 else list(range(1, 300)) + list(range(stream_len - 300, stream_len))
    if mode == 'single':
        return [1 + plan['p1'] % (stream_len - 1)]
    if mode == 'boundaries':
        cuts = set()
        for bnd in bounds:
            for off in (bnd - 1, bnd, bnd + 1):
                if 0 < off < stream_len:
                    cuts.add(off)
        return sorted(cuts)
    if mode == 'random':
        rng = __import__('random').Random(plan['p1'])
        count = 1 + plan['p2'] % 12
        return sorted(set(rng.randrange(1, stream_len) for _ in range(count)))
    if mode == 'exhaustive-window':
        width = min(10, stream_len)
        start = plan['p1'] % (stream_len - width + 1)
        bits = plan['p3'] % (1 << (width - 1))
        cuts = [start + 1 + bit for bit in range(width - 1) if bits >> bit & 1]
        if start > 0:
            cuts.append(start)
        return sorted(set(cuts))
    return []


class Run:
    pass


def execute(plan, sched, verbose=False):
    har = tcpcl_peer.PeerHarness(plan, sched, verbose)
    run = Run()
    run.har = har
    run.wld = har.wld
    run.plan = plan
    run.viols = []
    run.stats = {}
    try:
        _drive(run, plan, har)
    finally:
        har.restore()
    return run


def _compare(run, har, refdec, where):
    ''' Handled messages vs reference decode of the delivered prefix. '''
    ref = refdec.msgs
    handled = har.handled
    if har.hang:
        run.viols.append(('hang', 'callback-hang', 'a callback never returned after %s' % where))
        return False
    if len(handled) > len(ref):
        extra = handled[len(ref)][1]
        run.viols.append(('early', extra.get('kind', '?'), 'handler acted on %s before its final octet arrived (%s)' % (extra.get('kind'), where)))
        return False
    for (ix, (_seq, got)) in enumerate(handled):
        want = tcpcl_peer.msg_fields(ref[ix])
        if got != want:
            diff = [key for key in want if got.get(key) != want.get(key)] or ['extra-field']
            run.viols.append(('fields', '%s.%s' % (want['kind'], diff[0]), 'message #%d decoded as %r, reference says %r' % (
                ix, {key: _brief(got.get(key)) for key in diff}, {key: _brief(want.get(key)) for key in diff})))
            return False
    closed = har.victim_closed()
    if closed and len(handled) < len(ref) and not any(got.get('kind') == 'SESS_TERM' for (_seq, got) in handled) \
            and not any(msg['kind'] in ('SESS_TERM', 'MSG_REJECT') for msg in har.vmsgs):
        # the stream is legal throughout and nobody asked for termination: nothing entitles the endpoint to hang up,
        # least of all the position of a read boundary
        stuck = ref[len(handled)]
        run.viols.append(('closed', 'mid-stream-' + stuck['kind'], 'the endpoint closed the connection in the middle of a valid stream, %s ending at offset %d never acted on (%s); %d octets delivered' % (
            stuck['kind'], stuck['end'], where, len(har.sent))))
        return False
    if len(handled) < len(ref) and not closed:
        stuck = ref[len(handled)]
        run.viols.append(('late', stuck['kind'] + ('@last-octet' if stuck['end'] == len(har.sent) else ''),
                          '%s complete at stream offset %d was not acted on (%s); %d octets delivered' % (
                              stuck['kind'], stuck['end'], where, len(har.sent))))
        return False
    hdl = har.victim_state()
    if hdl is not None and not closed and len(handled) == len(ref):
        tail = len(har.sent) - (ref[-1]['end'] if ref else 0)
        if hdl.recv_buffer_used() != tail:
            run.viols.append(('buffer', 'occupancy', 'receive buffer holds %d octets, undecoded tail is %d (%s)' % (
                hdl.recv_buffer_used(), tail, where)))
            return False
    return True


def _brief(val):
    if isinstance(val, (bytes, bytearray)) and len(val) > 16:
        return '<%d octets>' % len(val)
    return val


def _drive(run, plan, har):
    stream = build_stream(plan)
    static = b''.join(part for (part, _ix) in stream)
    bounds = []
    pos = 0
    for (part, _ix) in stream:
        pos += len(part)
        bounds.append(pos)
    cuts = cut_points(plan, len(static), bounds)
    refdec = rfc9174.StreamDecoder()
    inside = [cut for cut in cuts if cut not in bounds]
    run.stats = dict(cuts=len(cuts), inside=len(inside), stream_len=len(static), mode=plan['mode'])
    # victim transfers are triggered when the static stream has been delivered up to a given item
    item_end = {}
    pos = 0
    for (part, ix) in stream:
        pos += len(part)
        item_end[ix] = pos
    pending_sends = sorted(plan.get('victim_sends', []), key=lambda item: item['after'])
    acked = 0
    # the peer's dynamic replies may only be inserted between its messages:
    # make sure a chunk edge exists at the boundary where a victim send is due
    for vsend in pending_sends:
        edge = item_end.get(vsend['after'] - 1)
        if edge is not None and 0 < edge < len(static) and edge not in cuts:
            cuts = sorted(cuts + [edge])
    edges = [0] + cuts + [len(static)]
    answered = 0
    carry = b''
    for (begin, end) in zip(edges, edges[1:]):
        if har.victim_closed() or har.wld.capped:
            break
        # the tail of a dynamic reply may travel in the same read as what follows it
        chunk = carry + static[begin:end]
        carry = b''
        har.deliver(chunk)
        refdec.feed(chunk)
        har.settle()
        if not _compare(run, har, refdec, 'chunk [%d:%d]' % (begin, end)):
            return
        # user sends of the victim once the session is up and the stream position passed
        while pending_sends and har.contact and end in bounds and item_end.get(pending_sends[0]['after'] - 1, 0) <= end:
            hdl = har.victim_state()
            if hdl is None or not hdl._in_sess or hdl._in_term:
                break
            vsend = pending_sends.pop(0)
            har.user_send(body_for(vsend['tag'], vsend['len']))
            har.settle()
            # answer the victim's segments honestly, whole messages, one chunk each
            segs = [msg for msg in har.vmsgs if msg['kind'] == 'XFER_SEGMENT'][answered:]
            cum = {}
            for seg in segs:
                answered += 1
                cum[seg['transfer_id']] = cum.get(seg['transfer_id'], 0) + len(seg['data'])
                if vsend['answer'] == 'refuse' and seg['flags'] & rfc9174.FLAG_START:
                    reply = rfc9174.encode(dict(kind='XFER_REFUSE', reason=2, transfer_id=seg['transfer_id']))
                elif vsend['answer'] == 'refuse':
                    continue
                else:
                    reply = rfc9174.encode(dict(kind='XFER_ACK', flags=seg['flags'], transfer_id=seg['transfer_id'],
                                                length=cum[seg['transfer_id']]))
                    acked += 1
                # dynamic replies are delivered split in two when a cut mode is active
                if plan['mode'] != 'whole' and len(reply) > 1:
                    mid = 1 + plan['p2'] % (len(reply) - 1)
                    parts = [reply[:mid], reply[mid:]]
                    run.stats['inside'] += 1
                else:
                    parts = [reply]
                # what was held back from the previous reply goes first, in the same read as the start of this one
                parts[0] = carry + parts[0]
                carry = b''
                if plan.get('glue') and end < len(static):
                    carry = parts.pop()
                    run.stats['glued'] = run.stats.get('glued', 0) + 1
                for part in parts:
                    if har.victim_closed():
                        break
                    har.deliver(part)
                    refdec.feed(part)
                    har.settle()
                    if not _compare(run, har, refdec, 'reply to victim segment'):
                        return
    if carry and not har.victim_closed():
        har.deliver(carry)
        refdec.feed(carry)
        har.settle()
        if not _compare(run, har, refdec, 'last reply to a victim segment'):
            return
    run.stats['acked'] = acked
    har.user_pop_all()
    # delivered transfers must be intact
    if not har.victim_closed():
        want = {}
        for item in plan['items']:
            if item['kind'] == 'XFER':
                want[str(item['tid'])] = body_for(item['tag'], sum(item['sizes']))
        for (_seq, bid, data) in har.popped:
            if bid in want and data != want[bid]:
                run.viols.append(('fields', 'reassembled-body', 'transfer %s popped with %d octets, sent %d' % (bid, len(data), len(want[bid]))))
    if har.vdec.error is not None:
        run.viols.append(('codec', 'victim-output-undecodable', 'reference decoder rejects the agent output at offset %d: %s' % har.vdec.error))
    else:
        # what the agent encoded must decode to the fields it was configured with, and leave no partial message behind
        inits = [msg for msg in har.vmsgs if msg['kind'] == 'SESS_INIT']
        want = plan['cfg']['node_id'].encode('utf-8')
        if inits and inits[0]['nodeid'] != want:
            run.viols.append(('codec', 'sess-init-nodeid', 'reference decoder reads node id %r from the agent SESS_INIT, configured is %r' % (inits[0]['nodeid'], want)))
        elif har.vdec.pending() and not har.hang:
            run.viols.append(('codec', 'victim-output-partial-message', 'the agent output ends with %d octets that are not a complete message for the reference decoder' % har.vdec.pending()))


def judge(run):
    return run.viols


def describe(run):
    plan = run.plan
    stats = run.stats
    counters = dict(run.wld.counters)
    counters['mode.' + plan['mode']] = 1
    if stats.get('inside'):
        counters['cut.inside_message'] = stats['inside']
    stream = build_stream(plan)
    if stats.get('cuts') and any(0 < 1 for _ in ()):
        pass
    if plan['items'] and plan['items'][-1]['kind'] == 'KEEPALIVE':
        counters['probe.keepalive_last'] = 1
    if any(item['kind'] == 'XFER' and 0 in item['sizes'] for item in plan['items']):
        counters['probe.zero_length_segment'] = 1
    if any(item['kind'] == 'SESS_INIT' and item['ext'] for item in plan['items']):
        counters['probe.ext_items'] = 1
    if stats.get('acked'):
        counters['probe.victim_transfer_acked'] = 1
    if stats.get('glued'):
        counters['probe.reply_glued_to_next_message'] = 1
    if plan['cfg']['node_id'] != 'dtn://v/':
        counters['probe.non_ascii_node_id'] = 1
    static = b''.join(part for (part, _ix) in stream)
    bounds = []
    pos = 0
    for (part, _ix) in stream:
        pos += len(part)
        bounds.append(pos)
    cuts = cut_points(plan, len(static), bounds)
    if any(cut < 6 for cut in cuts):
        counters['cut.inside_contact'] = 1
    import hashlib
    key = hashlib.blake2b(static + repr((cuts, plan['role'], plan['chunk_size'], plan.get('victim_sends'))).encode(), digest_size=12).hexdigest()
    sample = dict(role=plan['role'], mode=plan['mode'], chunk_size=plan['chunk_size'], stream_len=len(static), cuts=cuts[:40],
                  items=[item['kind'] for item in plan['items']], handled=[got['kind'] for (_s, got) in run.har.handled][:30])
    return dict(nontrivial=bool(stats.get('inside')), key=key, sim_us=run.wld.now, steps=run.wld.steps, capped=run.wld.capped,
                counters=counters, sample=sample)
