''' C17 - TCPCL answers out-of-place peer messages without corrupting state.
Engine E3: one real agent with its own outgoing transfers; the peer is a
state-hostile script built with the reference encoder that still ACKs honestly.
DESIGN 5/C17.
'''
import hashlib

from scenarios import tcpcl_peer
from scenarios.tcpcl_pair import body_for
from props import tcpcl_common as tc
from ref import rfc9174

ID = 'C17'
LEVEL = 'exploration'
RULE = ('hostile scripts: in each victim state (contact header not yet sent by the peer, contact done, established, victim transfer in '
        'progress, peer transfer in progress, terminating) the peer sends 1-4 messages drawn from: segment START/middle/END with matching or '
        'foreign transfer id, XFER_ACK / XFER_REFUSE for known and unknown ids (including a final ACK for the transfer of the victim itself while that is still in progress behind a full socket buffer), SESS_TERM, SESS_INIT again, KEEPALIVE, MSG_REJECT, an unknown '
        'message type, a contact header with wrong magic or version; interleaved with honest transfers and honest ACKs for the victim\'s '
        'own bundles. Non-trivial: at least one message of the classes named in the statement was delivered; distinct = digest of '
        '(role, script).')
COMPONENTS = tc.COMPONENTS
PROBES = ('hostile.pre-session', 'hostile.unknown-id', 'hostile.no-transfer', 'hostile.unknown-type', 'hostile.bad-contact',
          'hostile.other', 'probe.victim_transfer_completed', 'probe.followup_processed', 'probe.queued_before_session', 'probe.final_ack_while_in_progress', 'probe.final_ack_while_queued', 'probe.refuse_own_queued', 'probe.refuse_own_unstarted', 'probe.hostile_while_ending', 'probe.unsolicited_term_reply', 'probe.crossing_sess_term')
ASSUMPTIONS = ['the reject/terminate/close clause is demanded only for the message classes the statement lists; for other hostile '
               'input only: no escaped exception, no mixed data, own transfers unharmed']
CHUNK = 20
BUDGET = {'quick': 40, 'thorough': 600}

#: message classes named in the statement: the victim must answer with MSG_REJECT, SESS_TERM or close
LISTED = {'pre-session', 'no-transfer', 'unknown-id', 'unknown-type', 'bad-contact', 'unsolicited-term-reply'}


def _hostile(ch, state):
    ''' One hostile message descriptor for a victim state. '''
    if state == 'pre-contact':
        kind = ch.choice('bc', ('bad-magic', 'bad-version3', 'bad-version5', 'bad-magic'))
        return dict(cls='bad-contact', what=kind)
    if state == 'contact-done':
        what = ch.choice('pre', ('seg-start', 'seg-mid', 'ack', 'refuse', 'term', 'keepalive', 'reject'))
        cls = 'pre-session' if what in ('seg-start', 'seg-mid', 'ack', 'refuse', 'term') else 'other'
        return dict(cls=cls, what=what, tid=ch.pick('tid', 5))
    what = ch.choice('est', ('seg-mid-none', 'seg-end-none', 'seg-foreign', 'ack-unknown', 'refuse-unknown', 'ack-unknown',
                             'init-again', 'keepalive', 'reject', 'start-nested', 'unknown-type', 'ack-own-end', 'ack-own-end', 'term', 'term-reply'))
    cls = {'seg-mid-none': 'no-transfer', 'seg-end-none': 'no-transfer', 'seg-foreign': 'no-transfer',
           'ack-unknown': 'unknown-id', 'refuse-unknown': 'unknown-id', 'unknown-type': 'unknown-type'}.get(what, 'other')
    return dict(cls=cls, what=what, tid=1000 + ch.pick('tid', 5), mid=ch.choice('unk', (0x08, 0x7F, 0xFF, 0x00)))


def gen(ch, tier):
    role = ch.choice('role', ('passive', 'active'))
    cfg = dict(node_id='dtn://v/', keepalive_time=0, idle_time=0, segment_size_mru=ch.choice('mru', (100, 10 * 1024**2)),
               segment_size_tx_initial=ch.choice('txi', (16, 104857)), tls_enable=False, enable_test=[])
    script = []
    tag = 200
    # phase 1: before the peer's contact header
    if ch.coin('pre-contact', 1, 6):
        script.append(dict(step='hostile', state='pre-contact', msg=_hostile(ch, 'pre-contact')))
        # a bad contact header ends the conversation
    else:
        script.append(dict(step='contact'))
        if ch.coin('early-send', 1, 3):
            # a bundle queued by the user before the session is established (it is sent once it is)
            script.append(dict(step='victim_send', len=ch.choice('vlen', (1, 40, 300)), tag=tag, early=True))
            tag += 1
        for _ in range(ch.weighted('n.contact-done', (4, 2, 1))):
            script.append(dict(step='hostile', state='contact-done', msg=_hostile(ch, 'contact-done')))
        script.append(dict(step='init'))
        nsteps = 1 + ch.pick('nsteps', 6)
        peer_tid = 1
        for _ in range(nsteps):
            kind = ch.weighted('step', (5, 2, 2, 2, 2))
            if kind == 4:
                # the victim's user ends the session while one of its transfers is still unacknowledged (the peer holds its
                # acknowledgements back): hostile messages then meet an endpoint in the ending state that cannot close yet
                script.append(dict(step='victim_send', len=ch.choice('vlen', (1, 40, 300)), tag=tag, hold_ack=True))
                tag += 1
                script.append(dict(step='victim_term', hold_ack=True))
                for _h in range(1 + ch.pick('n.ending', 2)):
                    script.append(dict(step='hostile', state='established', msg=_hostile(ch, 'established'), hold_ack=True))
                break
            if kind == 0:
                script.append(dict(step='hostile', state='established', msg=_hostile(ch, 'established')))
            elif kind == 1:
                script.append(dict(step='victim_send', len=ch.choice('vlen', (1, 40, 300, 3000)), tag=tag))
                tag += 1
                if ch.coin('own-refuse', 1, 5):
                    # a refusal naming a transfer the peer cannot know yet (queued behind the one in progress, or not started),
                    # optionally followed by the peer ending the session
                    script[-1]['no_settle'] = ch.coin('own-refuse.now', 1, 2)
                    glued = ch.coin('own-refuse.glued', 1, 2)
                    script.append(dict(step='hostile', state='established', msg=dict(cls='other', what='refuse-own-queued', with_term=glued)))
                    if not glued and ch.coin('own-refuse.term', 1, 2):
                        script.append(dict(step='peer_term'))
                elif ch.coin('own-ack', 1, 3):
                    if ch.coin('own-ack.now', 1, 2):
                        # the acknowledgement arrives before the agent's idle callback has started the transfer: queued, not started
                        script[-1]['no_settle'] = True
                    script.append(dict(step='hostile', state='established', msg=dict(cls='other', what='ack-own-end')))
            elif kind == 2:
                script.append(dict(step='honest_xfer', tid=peer_tid, tag=tag, sizes=[ch.choice('hs', (1, 20, 60)) for _ in range(1 + ch.pick('hn', 3))]))
                peer_tid += 1
                tag += 1
            else:
                # hostile message in the middle of an honest peer transfer
                script.append(dict(step='honest_xfer', tid=peer_tid, tag=tag, sizes=[10, 10, 10],
                                   inject_after=1 + ch.pick('inj', 2), msg=_hostile(ch, 'established')))
                peer_tid += 1
                tag += 1
    # a bounded socket buffer keeps the victim's own transfers in progress while the peer talks
    return dict(scenario='tcpcl_adversary', role=role, cfg=cfg, chunk_size=10240, script=script,
                net=dict(tcp_capacity=ch.choice('cap', (1 << 30, 1 << 30, 300))))


def _encode_hostile(msg, cur_tid=None):
    what = msg['what']
    if what == 'bad-magic':
        return b'dtn?' + bytes([4, 0])
    if what == 'bad-version3':
        return b'dtn!' + bytes([3, 0, 0, 0, 0])
    if what == 'bad-version5':
        return b'dtn!' + bytes([5, 0])
    tid = msg.get('tid', 1)
    if what == 'seg-start':
        return rfc9174.encode(dict(kind='XFER_SEGMENT', flags=3, transfer_id=tid, ext=[rfc9174.xfer_length_ext(3)], data=b'abc'))
    if what in ('seg-mid', 'seg-mid-none'):
        return rfc9174.encode(dict(kind='XFER_SEGMENT', flags=0, transfer_id=tid, data=b'HOSTILE-MID'))
    if what == 'seg-end-none':
        return rfc9174.encode(dict(kind='XFER_SEGMENT', flags=1, transfer_id=tid, data=b'HOSTILE-END'))
    if what == 'seg-foreign':
        return rfc9174.encode(dict(kind='XFER_SEGMENT', flags=1, transfer_id=tid + 77, data=b'HOSTILE-FOREIGN'))
    if what == 'start-nested':
        return rfc9174.encode(dict(kind='XFER_SEGMENT', flags=2, transfer_id=tid + 500, ext=[rfc9174.xfer_length_ext(99)], data=b'HOSTILE-NESTED'))
    if what in ('ack', 'ack-unknown'):
        return rfc9174.encode(dict(kind='XFER_ACK', flags=1, transfer_id=tid, length=5))
    if what in ('refuse', 'refuse-unknown'):
        return rfc9174.encode(dict(kind='XFER_REFUSE', reason=1, transfer_id=tid))
    if what == 'term':
        return rfc9174.encode(dict(kind='SESS_TERM', flags=0, reason=0))
    if what == 'term-reply':
        return rfc9174.encode(dict(kind='SESS_TERM', flags=1, reason=0))
    if what == 'keepalive':
        return rfc9174.encode(dict(kind='KEEPALIVE'))
    if what == 'reject':
        return rfc9174.encode(dict(kind='MSG_REJECT', rej_msg_id=2, reason=3))
    if what == 'init-again':
        return rfc9174.encode(dict(kind='SESS_INIT', keepalive=0, segment_mru=1 << 20, nodeid=b'dtn://x/'))
    if what == 'unknown-type':
        return bytes([msg['mid'] if msg['mid'] not in range(1, 8) else 0x08]) + b'\x00\x01\x02\x03'
    raise ValueError(what)


class Run:
    pass


def execute(plan, sched, verbose=False):
    har = tcpcl_peer.PeerHarness(plan, sched, verbose)
    run = Run()
    run.har = har
    run.wld = har.wld
    run.plan = plan
    run.viols = []
    run.stats = {}
    try:
        _drive(run, plan, har)
    finally:
        har.restore()
    return run


def _ack_victim(run, har, state):
    ''' Honest acknowledgements for the victim's segments seen so far. '''
    segs = [msg for msg in har.vmsgs if msg['kind'] == 'XFER_SEGMENT']
    for seg in segs[state['answered']:]:
        state['answered'] += 1
        state['cum'][seg['transfer_id']] = state['cum'].get(seg['transfer_id'], 0) + len(seg['data'])
        if har.victim_closed():
            continue
        har.deliver(rfc9174.encode(dict(kind='XFER_ACK', flags=seg['flags'], transfer_id=seg['transfer_id'],
                                        length=state['cum'][seg['transfer_id']])))
        har.settle()


def _responded(har, before):
    new = har.vmsgs[before:]
    return any(msg['kind'] in ('MSG_REJECT', 'SESS_TERM') for msg in new) or har.victim_closed()


def _do_hostile(run, har, msg, state):
    before = len(har.vmsgs)
    if msg['what'] == 'refuse-own-queued':
        tid = int(har.queued[-1][1]) if har.queued else 1
        run.stats['probe.refuse_own_queued'] = 1
        started = any(evt[3] == 'dbus-signal' and evt[5] == 'send_bundle_started' and str(evt[7][0]) == str(tid) for evt in har.wld.hist)
        if started or msg.get('with_term'):
            state.setdefault('refused', set()).add(str(tid))
        else:
            # the transfer has not been started: to the peer its id is unknown, the refusal is out of place and the queued transfer is to be unaffected
            run.stats['probe.refuse_own_unstarted'] = 1
        data = rfc9174.encode(dict(kind='XFER_REFUSE', reason=2, transfer_id=tid))
        if msg.get('with_term'):
            # ... and the peer's SESS_TERM in the same read, before the victim's idle callbacks have run
            data += rfc9174.encode(dict(kind='SESS_TERM', flags=0, reason=0))
            state['peer_term'] = True
    elif msg['what'] == 'ack-own-end':
        # a final acknowledgement for the victim's most recent transfer, whatever state that is in (queued, in progress, already acknowledged)
        (tid, size) = (int(har.queued[-1][1]), len(har.queued[-1][2])) if har.queued else (1, 5)
        hdl = har.victim_state()
        cur = getattr(hdl, '_tx_tmp', None) if hdl is not None else None
        if cur is not None and cur.transfer_id == tid:
            run.stats['probe.final_ack_while_in_progress'] = 1
        data = rfc9174.encode(dict(kind='XFER_ACK', flags=1, transfer_id=tid, length=size))
    else:
        if msg['what'] in ('term', 'term-reply') and msg['cls'] == 'other':
            own_term = any(vmsg['kind'] == 'SESS_TERM' for vmsg in har.vmsgs)
            if msg['what'] == 'term-reply' and not own_term:
                # a reply to a SESS_TERM that was never sent: out of place, to be answered by ending the session (or a reject)
                msg = dict(msg, cls='unsolicited-term-reply')
                run.stats['probe.unsolicited_term_reply'] = 1
            elif msg['what'] == 'term' and own_term:
                # the peer's own SESS_TERM crosses the victim's (both end the session at once)
                run.stats['probe.crossing_sess_term'] = 1
            state['peer_term'] = True
        data = _encode_hostile(msg)
    har.deliver(data)
    # the answer may be queued behind output that a full socket buffer holds back: read until the victim is silent
    har.settle_all()
    run.stats['hostile.' + msg['cls']] = run.stats.get('hostile.' + msg['cls'], 0) + 1
    if har.wld.counters.get('escaped-exception'):
        # consequences of an escaped exception are reported once, as that
        state['dead'] = True
        return
    if msg['cls'] in LISTED and not state['dead'] and not _responded(har, before):
        run.viols.append(('unanswered', '%s:%s' % (msg['cls'], msg['what']),
                          'hostile %s (%s) drew neither MSG_REJECT, SESS_TERM nor closure' % (msg['what'], msg['cls'])))
    if msg['cls'] == 'unknown-type' or msg['cls'] == 'bad-contact':
        # framing is lost after these: nothing sensible can follow
        state['dead'] = True


def _drive(run, plan, har):
    state = dict(answered=0, cum={}, dead=False)
    peer_bodies = {}
    established = False
    for step in plan['script']:
        if har.victim_closed() or state['dead'] or har.hang or har.wld.capped:
            break
        kind = step['step']
        if kind == 'contact':
            har.deliver(rfc9174.encode(dict(kind='CONTACT', flags=0)))
            har.settle()
        elif kind == 'init':
            har.deliver(rfc9174.encode(dict(kind='SESS_INIT', keepalive=0, segment_mru=1 << 20, nodeid=b'dtn://x/')))
            har.settle()
            established = True
        elif kind == 'hostile':
            _do_hostile(run, har, step['msg'], state)
        elif kind == 'victim_send':
            hdl = har.victim_state()
            if hdl is not None and (hdl._in_sess or step.get('early')) and not hdl._in_term:
                har.user_send(body_for(step['tag'], step['len']))
                if step.get('no_settle'):
                    run.stats['probe.final_ack_while_queued'] = 1
                    continue
                har.settle()
                if step.get('early'):
                    run.stats['probe.queued_before_session'] = 1
        elif kind == 'victim_term':
            hdl = har.victim_state()
            if hdl is not None and hdl._in_sess and not hdl._in_term:
                har.call(har.contact, 'terminate', 0)
                har.settle()
                run.stats['probe.hostile_while_ending'] = 1
        elif kind == 'peer_term':
            # the peer ends the session in the regular way; the victim must answer and survive (no escaped exception)
            har.deliver(rfc9174.encode(dict(kind='SESS_TERM', flags=0, reason=0)))
            har.settle_all()
            state['peer_term'] = True
        elif kind == 'honest_xfer':
            body = body_for(step['tag'], sum(step['sizes']))
            peer_bodies[str(step['tid'])] = body
            pos = 0
            for (six, size) in enumerate(step['sizes']):
                if har.victim_closed() or state['dead']:
                    break
                flags = (2 if six == 0 else 0) | (1 if six == len(step['sizes']) - 1 else 0)
                ext = [rfc9174.xfer_length_ext(len(body))] if six == 0 else []
                har.deliver(rfc9174.encode(dict(kind='XFER_SEGMENT', flags=flags, transfer_id=step['tid'], ext=ext, data=body[pos:pos + size])))
                pos += size
                har.settle()
                if step.get('inject_after') == six + 1:
                    _do_hostile(run, har, step['msg'], state)
        if not step.get('hold_ack'):
            _ack_victim(run, har, state)
    _ack_victim(run, har, state)
    # the endpoint keeps running: a well-formed transfer is still processed
    alive = not har.victim_closed() and not state['dead'] and established
    hdl = har.victim_state()
    in_term = hdl is not None and (hdl._in_term or getattr(hdl, '_peer_term', False))
    if alive and hdl is not None and hdl._in_sess and not in_term and not har.hang:
        probe = body_for(9999, 33)
        before = len(har.vmsgs)
        for _round in range(400):
            # let the victim finish what a full socket buffer held back, acknowledging as it goes
            seen = state['answered']
            _ack_victim(run, har, state)
            har.settle_all()
            if state['answered'] == seen and state['answered'] >= len([msg for msg in har.vmsgs if msg['kind'] == 'XFER_SEGMENT']):
                break
        before = len(har.vmsgs)
        har.deliver(rfc9174.encode(dict(kind='XFER_SEGMENT', flags=3, transfer_id=900, ext=[rfc9174.xfer_length_ext(33)], data=probe)))
        har.settle_all()
        peer_bodies['900'] = probe
        acks = [msg for msg in har.vmsgs[before:] if msg['kind'] == 'XFER_ACK' and msg['transfer_id'] == 900]
        if not acks:
            run.viols.append(('wedged', 'followup-not-processed-' + _cause(run), 'a well-formed transfer after the hostile script was not acknowledged'))
        else:
            run.stats['probe.followup_processed'] = 1
        _ack_victim(run, har, state)
        # own transfers unaffected
        done = set()
        for evt in har.wld.hist:
            if evt[3] == 'dbus-signal' and evt[5] == 'send_bundle_finished' and evt[7][2] == 'success':
                done.add(evt[7][0])
        # a refusal that is itself out of place (before the session exists) is rejected, not acted on
        refused = set(str(step['msg'].get('tid')) for step in plan['script']
                      if step.get('msg') and step['msg']['what'].startswith('refuse') and step.get('state') != 'contact-done')
        refused |= state.get('refused', set())
        for (_seq, tid, body) in har.queued:
            if tid not in done and tid not in refused:
                run.viols.append(('own-transfer', 'not-completed-' + _cause(run), 'victim transfer %s (%d octets) did not complete although the session stayed up' % (tid, len(body))))
                break
            run.stats['probe.victim_transfer_completed'] = 1
    har.user_pop_all()
    for (_seq, bid, data) in har.popped:
        if bid not in peer_bodies or data != peer_bodies[bid]:
            run.viols.append(('mixed-data', 'delivered-foreign-data', 'receive queue holds transfer %s with %d octets that no single peer transfer carried' % (bid, len(data))))
    for evt in har.wld.hist:
        if evt[3] == 'escaped-exception':
            run.viols.append(('escaped-exception', '%s@%s' % (evt[4], evt[5]), '%s escaped from %s via callback %s' % (evt[4], evt[5], evt[7])))
            run.stats['probe.escaped_exception'] = 1
    if har.hang:
        run.viols.append(('wedged', 'callback-hang', 'a callback never returned'))


def _cause(run):
    for evt in run.wld.hist:
        if evt[3] == 'escaped-exception':
            return 'after-%s@%s' % (evt[4], evt[5])
    return 'plain'


def judge(run):
    return run.viols


def describe(run):
    plan = run.plan
    counters = dict(run.wld.counters)
    counters.update(run.stats)
    key = hashlib.blake2b(repr((plan['role'], plan['script'], plan['cfg'])).encode(), digest_size=12).hexdigest()
    listed = sum(val for (name, val) in run.stats.items() if name.startswith('hostile.') and name[8:] in LISTED)
    sample = dict(role=plan['role'], script=[(step['step'], step.get('msg', {}).get('what')) for step in plan['script']],
                  victim_output=[msg['kind'] for msg in run.har.vmsgs][:30])
    return dict(nontrivial=bool(listed), key=key, sim_us=run.wld.now, steps=run.wld.steps, capped=run.wld.capped,
                counters=counters, sample=sample)
