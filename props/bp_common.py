''' Helpers shared by the BP properties (engine E5). '''
import hashlib
import random

from ref import rfc9171

COMPONENTS = dict(
    real=['bp.agent.Agent with admin, fragment, bpsec, sand, safe, zeroconf applications', 'bp.util.BundleContainer', 'bp.encoding.*',
          'scapy_cbor', 'scapy', 'cbor2', 'pycose', 'cryptography', 'repo code at /repo/src working tree'],
    simulated=['GLib main contexts + clock (dsim.world/glibmod)', 'convergence layer: simcl adaptor registered through bp.cla.cl_type, links between nodes '
               'with drop/dup/reorder/corrupt/MITM decided by the chooser', 'D-Bus (dsim.dbusmod)', 'per-node wall clocks with skew'],
    stub=['crcmod (table-driven shim, oracle uses bitwise ref/crc.py)', 'portion (integer interval shim)', 'certvalidator (chain/KU/EKU check with cryptography)',
          'yaml, psutil, ifaddr, zeroconf, macaddress (import-time)'],
)


def body(tag, length, first=0xFF):
    ''' Unique payload pattern whose first octet is not a decodable SAFE PDU. '''
    if length <= 0:
        return b''
    return bytes([first]) + random.Random(tag).randbytes(length - 1)


def boundary_len(ch, label):
    kind = ch.weighted(label, (4, 3, 3, 2, 1))
    if kind == 0:
        return ch.pick(label + '.s', 40)
    if kind == 1:
        return ch.choice(label + '.b', (22, 23, 24, 25, 254, 255, 256, 257))
    if kind == 2:
        return 1 + ch.pick(label + '.m', 600)
    if kind == 3:
        return ch.choice(label + '.B', (65534, 65535, 65536, 65537))
    return 1 + ch.pick(label + '.l', 5000)


def digest(obj):
    return hashlib.blake2b(repr(obj).encode(), digest_size=12).hexdigest()


def decode_outputs(items):
    ''' Decode cl_out records with the reference decoder; returns (bundles, errors). '''
    out = []
    errs = []
    for rec in items:
        try:
            dec = rfc9171.decode_bundle(rec['data'])
            dec['rec'] = rec
            out.append(dec)
        except rfc9171.Malformed as err:
            errs.append((rec, str(err)))
    return (out, errs)


def check_output_crcs(items):
    ''' C08 output half on a list of cl_out records. '''
    viols = []
    (decoded, errs) = decode_outputs(items)
    for (rec, text) in errs:
        viols.append(('output', 'undecodable', 'transmitted bundle is not well-formed: %s' % text))
    for dec in decoded:
        blocks = [dec['primary']] + dec['blocks']
        for blk in blocks:
            if not blk['crc_ok']:
                viols.append(('output', 'bad-crc-type%d' % blk['crc_type'], 'transmitted block %s carries a wrong CRC (type %d)' % (
                    blk.get('num', 'primary'), blk['crc_type'])))
    return viols


def is_admin(dec):
    return bool(dec['primary']['flags'] & rfc9171.FLAG_ADMIN)
