''' C13 - UDPCL transfers arrive intact and no datagram exceeds the MTU.
Engine E6: two real udpcl agents plus a foreign reference peer. DESIGN 5/C13.
'''
from scenarios import dgram_pair
from props import bp_common as bc
from ref import rfc9171, udpcl as refudp

ID = 'C13'
LEVEL = 'exploration'
RULE = ('per run an MTU (none, or straddling CBOR head boundaries for length / offset / transfer id) and 1-5 bundles (real BPv7 encodings '
        'whose total length straddles 23/24, 255/256, 65535/65536 and multiples of the MTU) sent in both directions between two real '
        'agents, interleaved with a foreign peer emitting datagrams that combine a whole bundle, transfer segments and padding, and with two '
        'foreign peers on one address (different source ports) whose interleaved segmented transfers carry the same transfer id; the '
        'network (chooser) drops, duplicates, reorders and delays datagrams according to the profile of the run; pacing runs on '
        'virtual time. Non-trivial: at least one transfer was segmented or a multi-message datagram was received; distinct = distinct '
        'event-history digests.')
COMPONENTS = dict(
    real=['udpcl.agent.Agent (both ends)', 'udpcl.config', 'cbor2', 'repo code at /repo/src working tree'],
    simulated=['GLib main contexts + monotonic / wall clocks', 'UDP sockets and network with drop / duplicate / reorder / delay (dsim.net)', 'D-Bus (dsim.dbusmod)'],
    stub=['portion (integer interval shim)', 'dtls (absent: DTLS never enabled)', 'yaml (import only)'])
PROBES = ('xfer.segmented', 'xfer.unsegmented', 'dg.drop', 'dg.dup', 'dg.delay', 'foreign.multi_message', 'foreign.padding', 'foreign.twin_peers_same_ip', 'foreign.transfer_id_reused', 'cfg.polling', 'profile.clean', 'profile.reorder',
          'profile.dup', 'profile.drop', 'bundles.delivered', 'ecn.enabled')
ASSUMPTIONS = ['"exactly one copy" is demanded only when every segment arrives exactly once (clean and reorder profiles); under duplication or loss only '
               '"never partial or corrupted"', 'MTUs below the fixed extension overhead are not generated (the sender cannot satisfy them)',
               'ECN feedback datagrams are a legitimate extra flow']
CHUNK = 10
BUDGET = {'quick': 40, 'thorough': 600}


def gen(ch, tier):
    profile = ch.choice('profile', ('clean', 'reorder', 'reorder', 'dup', 'drop'))
    net = dict(dg_drop_64=0, dg_dup_64=0, dg_reorder_64=0)
    if profile != 'clean':
        net['dg_reorder_64'] = ch.choice('reo', (8, 24, 48))
    if profile == 'dup':
        net['dg_dup_64'] = ch.choice('dup', (4, 16))
    if profile == 'drop':
        net['dg_drop_64'] = ch.choice('drop', (2, 8))
    mtu = ch.choice('mtu', (None, 48, 64, 100, 280, 281, 300, 1000, 1400))
    if ch.coin('mtu.any', 1, 3):
        # any MTU: the sizing arithmetic has CBOR head-size boundaries (23/24, 255/256, 65535/65536 octets) that move with it
        mtu = 33 + ch.pick('mtu.r', 300)
    sends = []
    for ix in range(1 + ch.pick('nsend', 5)):
        base = (mtu or 300)
        kind = ch.weighted('lenk', (3, 3, 2, 1))
        if kind == 0:
            plen = ch.pick('plen.s', 60)
        elif kind == 1:
            plen = max(0, base * (1 + ch.pick('plen.k', 4)) - 60 + ch.pick('plen.d', 8))
        elif kind == 2:
            plen = ch.choice('plen.b', (150, 190, 200, 65450, 65480, 65500)) if tier != 'quick' or ch.coin('big', 1, 4) else ch.choice('plen.b2', (150, 190, 200))
        else:
            plen = 1 + ch.pick('plen.m', 3000)
        if mtu is not None and plen // max(1, mtu - 30) > 400:
            plen = (mtu - 30) * 400
        if mtu is None:
            # without an MTU the bundle must fit one UDP datagram at all
            plen = min(plen, 65000)
        sends.append(dict(src=ch.choice('src', ('U1', 'U1', 'U2')), plen=plen, tag=ix + 1, t=1000 * ch.pick('t', 3000)))
    if ch.coin('equal-run', 1, 10):
        # a long-lived sender: thirty bundles of one size, so that its transfer numbers cross a CBOR head boundary (23 -> 24)
        mtu = ch.choice('equal.mtu', (400, 1000))
        size = ch.choice('equal.len', (2000, 3500))
        sends = [dict(src='U1', plen=size, tag=ix + 30, t=50000 * ix + 1000) for ix in range(30)]
    foreign = []
    for ix in range(ch.weighted('nforeign', (2, 2, 1))):
        parts = []
        for _ in range(1 + ch.pick('nparts', 3)):
            parts.append(ch.choice('part', ('bundle', 'segment', 'segment', 'padding')))
        foreign.append(dict(parts=parts, tag=100 + ix, plen=20 + ch.pick('fplen', 200), t=1000 * ch.pick('ft', 3000), cut=ch.pick('fcut', 1 << 16)))
    twins = []
    for ix in range(ch.weighted('ntwin', (2, 1, 1))):
        same_len = ch.coin('twin.same', 1, 2)
        twins.append(dict(tag=300 + 2 * ix, plen_a=40 + ch.pick('twin.pa', 300), plen_b=None if same_len else 40 + ch.pick('twin.pb', 300),
                          xfer_id=10 * ix + ch.pick('twin.id', 3), npieces=2 + ch.pick('twin.np', 4), order=ch.pick('twin.order', 1 << 16), t=1000 * ch.pick('twin.t', 3000)))
    reuse = []
    if profile in ('clean', 'reorder') and ch.coin('reuse', 1, 2):
        # one peer uses a transfer id again for a new bundle after the first transfer completed (a restarted sender counts from 0
        # again); only on links that lose and repeat nothing, and later than any datagram of the first transfer can still be under way
        same_len = ch.coin('reuse.same', 1, 2)
        reuse.append(dict(tag=400, plen_a=40 + ch.pick('reuse.pa', 300), plen_b=None if same_len else 40 + ch.pick('reuse.pb', 300),
                          xfer_id=50 + ch.pick('reuse.id', 3), npieces=2 + ch.pick('reuse.np', 4), order=ch.pick('reuse.order', 1 << 16),
                          t=1000 * ch.pick('reuse.t', 2000), gap=1000 * ch.choice('reuse.gap', (700, 1500))))
    ecn = ch.coin('ecn', 1, 4)
    return dict(scenario='udpcl_pair', kind='udpcl', profile=profile, net=net, mtu=mtu, sends=sends, foreign=foreign, twins=twins, reuse=reuse, ecn=ecn,
                cfg={'*': dict(mtu_default=mtu, node_id='dtn://u/', ecn_init=ecn, ecn_feedback=ecn, poll_ms=ch.choice('poll', (None, None, None, 100, 400)))})


def bundle_bytes(tag, plen):
    ''' A real BPv7 encoding (the UDPCL receiver recognises a bundle as a CBOR array). '''
    pri = dict(flags=0, crc_type=1, destination='dtn://dst/app', source='dtn://src/', report_to='dtn:none', create_time=820000000000, seqno=tag, lifetime=1000)
    body = bc.body(tag, plen)
    if tag % 3 == 0 and plen > 1:
        # every third bundle is half zero octets, so that segments end in 0x00 (which is also the padding octet)
        import random
        rnd = random.Random(tag)
        body = body[:1] + bytes(octet if rnd.random() < 0.5 else 0 for octet in body[1:])
    return rfc9171.encode_bundle(pri, [dict(type=1, num=1, flags=0, crc_type=0, btsd=body)])


class Run:
    pass


def execute(plan, sched, verbose=False):
    har = dgram_pair.DgramHarness(plan, sched, verbose)
    run = Run()
    run.har = har
    run.wld = har.wld
    run.plan = plan
    run.viols = []
    run.stats = {}
    _drive(run, plan, har)
    return run


def _drive(run, plan, har):
    wld = har.wld
    stats = run.stats
    stats['profile.' + plan['profile']] = 1
    if plan['cfg']['*'].get('poll_ms'):
        stats['cfg.polling'] = 1
    if plan['ecn']:
        stats['ecn.enabled'] = 1
    sent = {'U1': [], 'U2': []}     # bodies addressed to each receiver
    foreign_complete = {'U2': []}

    def do_send(item):
        dst = 'U2' if item['src'] == 'U1' else 'U1'
        body = bundle_bytes(item['tag'], item['plen'])
        ret = har.user_send(item['src'], body, {'address': dgram_pair.UDP_ADDR[dst], 'port': 4556})
        if isinstance(ret, str):
            sent[dst].append(body)

    def do_foreign(item):
        body = bundle_bytes(item['tag'], item['plen'])
        seg_body = bundle_bytes(item['tag'] + 50, item['plen'] + 7)
        cut = 1 + item['cut'] % (len(seg_body) - 1)
        segs = refudp.make_segments(7000 + item['tag'], seg_body, [cut])
        data = b''
        nseg = 0
        kinds = []
        for part in item['parts']:
            if part == 'bundle':
                data += body
                kinds.append('bundle')
                foreign_complete['U2'].append(body)
            elif part == 'segment' and nseg < 2:
                data += segs[nseg]
                nseg += 1
                kinds.append('segment')
            elif part == 'padding':
                data += b'\x00' * 5
                kinds.append('padding')
                break
        if nseg == 2:
            foreign_complete['U2'].append(seg_body)
        if len(kinds) > 1:
            stats['foreign.multi_message'] = 1
        if 'padding' in kinds:
            stats['foreign.padding'] = 1
        har.peer_send(data, 'U2')

    def do_twins(item):
        ''' Two distinct peers on one host (same IP, source ports 4556 and 4557) each send a segmented
        transfer with the SAME transfer id; their segments are interleaved. '''
        import random as _random
        body_a = bundle_bytes(item['tag'], item['plen_a'])
        body_b = bundle_bytes(item['tag'] + 1, item['plen_a'] if item['plen_b'] is None else item['plen_b'])
        streams = []
        for (port, body) in ((4556, body_a), (4557, body_b)):
            step = max(1, -(-len(body) // item['npieces']))
            cuts = list(range(step, len(body), step))
            streams.append([(port, seg) for seg in refudp.make_segments(item['xfer_id'], body, cuts)])
        merged = streams[0] + streams[1]
        _random.Random(item['order']).shuffle(merged)
        for (port, seg) in merged:
            with wld.as_node(har.xnode):
                (har.xsock if port == 4556 else har.xsock2).sendto(seg, (dgram_pair.UDP_ADDR['U2'], 4556))
        foreign_complete['U2'].extend([body_a, body_b])
        stats['foreign.twin_peers_same_ip'] = 1

    def do_reuse(item, second=False):
        ''' One peer, one transfer id, two bundles one after the other. '''
        import random as _random
        if not second:
            body = bundle_bytes(item['tag'], item['plen_a'])
        else:
            body = bundle_bytes(item['tag'] + 1, item['plen_a'] if item['plen_b'] is None else item['plen_b'])
        step = max(1, -(-len(body) // item['npieces']))
        segs = refudp.make_segments(item['xfer_id'], body, list(range(step, len(body), step)))
        _random.Random(item['order'] + int(second)).shuffle(segs)
        for seg in segs:
            with wld.as_node(har.xnode):
                har.xsock.sendto(seg, (dgram_pair.UDP_ADDR['U2'], 4556))
        foreign_complete['U2'].append(body)
        if not second:
            wld.after(item['gap'], do_reuse, item, True)
        else:
            stats['foreign.transfer_id_reused'] = 1

    if plan.get('twins'):
        from dsim.net import DgramSock
        with wld.as_node(har.xnode):
            har.xsock2 = DgramSock(har.net)
            har.xsock2.bind((dgram_pair.UDP_ADDR['X'], 4557))
    for item in plan['sends']:
        wld.at(item['t'], do_send, item)
    for item in plan['foreign']:
        wld.at(item['t'], do_foreign, item)
    for item in plan.get('twins', ()):
        wld.at(item['t'], do_twins, item)
    for item in plan.get('reuse', ()):
        wld.at(item['t'], do_reuse, item)
    har.run_until(4 * dgram_pair.SEC)
    har.settle(window_us=3 * dgram_pair.SEC)
    got = {side: har.user_pop_all(side) for side in ('U1', 'U2')}
    if har.hang:
        run.viols.append(('liveness', 'callback-hang', 'a callback never returned (watchdog)'))
        return
    if wld.capped:
        return
    # (1)+(2) what the agents put on the wire
    mtu = plan['mtu']
    per_xfer = {}
    whole = {'U1': [], 'U2': []}
    for (seq, node, src, dst, data) in har.wire():
        if node not in ('U1', 'U2'):
            continue
        try:
            msgs = refudp.split_messages(data)
        except refudp.Malformed as err:
            run.viols.append(('wire', 'undecodable-datagram', '%s sent a datagram the reference decoder rejects: %s' % (node, err)))
            return
        is_data = any(kind == 'bundle' or (kind == 'extmap' and refudp.EXT_TRANSFER in val) for (kind, val) in msgs)
        if mtu is not None and is_data and len(data) > mtu:
            run.viols.append(('mtu', 'datagram-exceeds-mtu', '%s sent a %d-octet datagram, MTU is %d' % (node, len(data), mtu)))
            return
        for (kind, val) in msgs:
            if kind == 'bundle':
                whole[node].append(val)
                stats['xfer.unsegmented'] = 1
            elif kind == 'extmap' and refudp.EXT_TRANSFER in val:
                (tid, total, off, chunk) = val[refudp.EXT_TRANSFER]
                per_xfer.setdefault((node, tid), []).append((off, bytes(chunk), total))
                stats['xfer.segmented'] = 1
    for side in ('U1', 'U2'):
        bodies = {tid: body for (_seq, tid, body) in har.queued[side]}
        for ((node, tid), segs) in per_xfer.items():
            if node != side:
                continue
            body = bodies.get(str(tid))
            if body is None:
                run.viols.append(('wire', 'unknown-transfer', '%s sent segments of transfer %r that was never queued' % (side, tid)))
                return
            segs.sort()
            pos = 0
            for (off, chunk, total) in segs:
                if total != len(body):
                    run.viols.append(('wire', 'total-length', '%s transfer %s announces %d octets, bundle has %d' % (side, tid, total, len(body))))
                    return
                if off != pos:
                    run.viols.append(('wire', 'segment-gap' if off > pos else 'segment-overlap', '%s transfer %s: segment at offset %d, expected %d' % (side, tid, off, pos)))
                    return
                pos += len(chunk)
            if pos != len(body) or b''.join(chunk for (_o, chunk, _t) in segs) != body:
                run.viols.append(('wire', 'segments-do-not-carry-bundle', '%s transfer %s: segments carry %d of %d octets or altered data' % (side, tid, pos, len(body))))
                return
        for data in whole[side]:
            if data not in bodies.values():
                run.viols.append(('wire', 'unknown-bundle', '%s sent an unsegmented bundle that was never queued' % side))
                return
    # (3) receivers
    exact = plan['profile'] in ('clean', 'reorder')
    for side in ('U1', 'U2'):
        expect = list(sent[side]) + (foreign_complete.get(side, []) if side == 'U2' else [])
        for data in got[side]:
            if data not in expect:
                kind = 'partial' if any(body.startswith(data) or data in body for body in expect) else 'corrupted'
                run.viols.append(('receive', kind + '-bundle-queued', '%s queued %d octets that are not one of the bundles sent to it' % (side, len(data))))
                return
        if plan['profile'] != 'dup':
            for body in set(got[side]):
                if got[side].count(body) > expect.count(body):
                    run.viols.append(('receive', 'duplicate-delivery', '%s queued a bundle %d times' % (side, got[side].count(body))))
                    return
        if exact:
            for body in expect:
                if got[side].count(body) != expect.count(body):
                    run.viols.append(('receive', 'missing-bundle-' + ('segmented' if mtu is not None and len(body) >= mtu else 'whole'),
                                      '%s never queued a %d-octet bundle although every datagram arrived exactly once' % (side, len(body))))
                    return
    stats['bundles.delivered'] = sum(len(val) for val in got.values())
    # (4) finished exactly once per started transfer
    for side in ('U1', 'U2'):
        started = [evt[7][0] for evt in wld.hist if evt[3] == 'dbus-signal' and evt[2] == side and evt[5] == 'send_bundle_started']
        finished = [evt[7][0] for evt in wld.hist if evt[3] == 'dbus-signal' and evt[2] == side and evt[5] == 'send_bundle_finished']
        for tid in started:
            if finished.count(tid) != 1:
                run.viols.append(('finished', 'count-%d' % finished.count(tid), '%s emitted send_bundle_finished %d times for transfer %s' % (side, finished.count(tid), tid)))
                return
    for evt in wld.hist:
        if evt[3] == 'escaped-exception':
            run.viols.append(('escaped-exception', '%s@%s' % (evt[4], evt[5]), '%s escaped from %s via callback %s in node %s' % (evt[4], evt[5], evt[7], evt[2])))
            return


def judge(run):
    return run.viols


def describe(run):
    counters = dict(run.wld.counters)
    counters.update(run.stats)
    plan = run.plan
    sample = dict(profile=plan['profile'], mtu=plan['mtu'], net=plan['net'], sends=plan['sends'], foreign=[item['parts'] for item in plan['foreign']],
                  datagram_sizes=[len(item[4]) for item in run.har.wire()][:40])
    nontrivial = bool(run.stats.get('xfer.segmented') or run.stats.get('foreign.multi_message') or run.stats.get('foreign.twin_peers_same_ip'))
    return dict(nontrivial=nontrivial, key=run.wld.digest(), sim_us=run.wld.now, steps=run.wld.steps, capped=run.wld.capped, counters=counters, sample=sample)
