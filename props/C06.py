''' C06 - fragments reassemble to the original bundle once, in any arrival
order. Engine E5 (destination role). DESIGN 5/C06.
'''
from scenarios import bp_net
from props import bp_common as bc
from ref import rfc9171

ID = 'C06'
LEVEL = 'exploration'
RULE = ('(a quarter of the originals carry an integrity block over the payload, bound to the primary block, which must verify after reassembly) 1-3 original bundles (same source with different timestamp / sequence number, or different sources with the same timestamp), '
        'each cut by the reference fragmenter into 2-6 pieces (uniform, uneven or overlapping) with extension blocks on the first '
        'fragment and replicate-flagged ones on all; the link (chooser) permutes the arrival order across all originals, duplicates '
        'fragments (also after completion) and in a share of runs drops one fragment. After every reception an interval-set model '
        'says which originals are complete. Non-trivial: at least two originals interleaved, or out-of-order / duplicated arrival; '
        'distinct = digest of (originals, arrival order).')
COMPONENTS = bc.COMPONENTS
PROBES = ('orig.with_integrity_block', 'cut.whole_payload_fragment', 'arr.out_of_order', 'arr.duplicate', 'arr.dup_after_complete', 'arr.interleaved', 'cut.overlapping', 'cut.uneven', 'fault.drop', 'done.reassembled',
          'orig.same_source', 'orig.same_time')
ASSUMPTIONS = ['fragments of one original agree on the total length', 'the code resets CRC types on the synthesized bundle: only payload and extension blocks are compared']
CHUNK = 25
BUDGET = {'quick': 30, 'thorough': 400}


def gen(ch, tier):
    origs = []
    variant = ch.choice('variant', ('one', 'same-source', 'same-time', 'same-source'))
    norig = 1 if variant == 'one' else 2 + ch.pick('norig', 2)
    for oix in range(norig):
        plen = ch.choice('plen', (2, 7, 24, 100, 256, 300))
        npieces = min(plen, 2 + ch.pick('np', 5))
        style = ch.choice('style', ('uniform', 'uneven', 'overlap', 'uniform', 'uneven', 'overlap', 'whole'))
        if style == 'whole':
            # a fragment that by itself covers the whole payload (offset 0, length = total), alone or next to partial ones
            pieces = [[0, plen]]
            if plen > 1 and ch.coin('whole.more', 1, 2):
                cut = 1 + ch.pick('cut', plen - 1)
                pieces += [[0, cut], [cut, plen]]
        elif style == 'uniform':
            step = -(-plen // npieces)
            pieces = [[start, min(plen, start + step)] for start in range(0, plen, step)]
        else:
            cuts = sorted(set(1 + ch.pick('cut', plen - 1) for _ in range(npieces - 1)))
            edges = [0] + cuts + [plen]
            pieces = [[lo, hi] for (lo, hi) in zip(edges, edges[1:])]
            if style == 'overlap':
                pieces = [[max(0, lo - ch.pick('ovl', 4)), min(plen, hi + ch.pick('ovr', 4))] for (lo, hi) in pieces]
        if variant == 'same-time':
            (source, time, seqno) = ('dtn://src%d/' % oix, 820000000000, 0)
        elif variant == 'same-source':
            (source, time, seqno) = ('dtn://src/', 820000000000 + (oix // 2), oix % 2)
        else:
            (source, time, seqno) = ('dtn://src/', 820000000000, 0)
        blocks = []
        for bix in range(ch.weighted('next', (3, 3, 2))):
            blocks.append(dict(type=ch.choice('bt', (192, 193)), num=2 + bix, flags=ch.choice('bf', (0, 1)), crc_type=ch.pick('bc', 3), blen=1 + ch.pick('bl', 20)))
        origs.append(dict(source=source, time=time, seqno=seqno, plen=plen, tag=oix + 1, pieces=pieces, style=style, blocks=blocks,
                          pri_crc=ch.pick('pc', 3), pay_crc=ch.pick('yc', 3),
                          # the original carries an integrity block over its payload (bound to the primary block): it travels in the first
                          # fragment and has to verify on the reassembled bundle, or the destination will not deliver it
                          bib=ch.coin('bib', 1, 4)))
    arrivals = [[oix, pix] for (oix, orig) in enumerate(origs) for pix in range(len(orig['pieces']))]
    for ix in range(len(arrivals) - 1, 0, -1):
        jx = ch.pick('perm', ix + 1) if ch.coin('doperm', 3, 4) else ix
        (arrivals[ix], arrivals[jx]) = (arrivals[jx], arrivals[ix])
    ndup = ch.weighted('ndup', (3, 2, 2, 1))
    for _ in range(ndup):
        item = list(ch.choice('dup', arrivals))
        arrivals.insert(ch.pick('dup.at', len(arrivals) + 1), item)
    drop = None
    if ch.coin('drop', 1, 5):
        drop = list(ch.choice('dropwhich', arrivals))
        arrivals = [item for item in arrivals if item != drop]
    if ch.coin('late-dup', 1, 3) and arrivals:
        arrivals.append(list(ch.choice('late', arrivals)))
    return dict(scenario='bp_reassemble', origs=origs, arrivals=arrivals, dropped=drop)


def _blocks(orig, pri=None):
    out = []
    for (ix, blk) in enumerate(orig['blocks']):
        out.append(dict(type=blk['type'], num=blk['num'], flags=blk['flags'], crc_type=blk['crc_type'], btsd=bc.body(300 + 10 * orig['tag'] + ix, blk['blen'], first=0x42)))
    pay = dict(type=1, num=1, flags=0, crc_type=orig['pay_crc'], btsd=bc.body(orig['tag'], orig['plen']))
    if orig.get('bib') and pri is not None:
        from props import bpsec_common as sc
        from ref import bpsec_cose
        out.insert(0, bpsec_cose.make_bib(pri, pay, sc.RAW_KEYS[b'mac256'], b'mac256', num=2 + len(orig['blocks']), alg=5, source=orig['source'],
                                          crc_type=orig['pay_crc']))
    out.append(pay)
    return out


def _primary(orig):
    return dict(flags=0, crc_type=orig['pri_crc'], destination='dtn://n1/app', source=orig['source'], report_to='dtn:none',
                create_time=orig['time'], seqno=orig['seqno'], lifetime=3600000)


def fragments_of(orig):
    pri = _primary(orig)
    return rfc9171.fragment(pri, _blocks(orig, pri), [tuple(piece) for piece in orig['pieces']])


class Run:
    pass


def execute(plan, sched, verbose=False):
    from props import bpsec_common as sc
    nodes = {'n1': dict(node_id='dtn://n1/', rx_routes=[['^dtn://n1/.*$', 'deliver']], tx_routes=[['.*', 'dtn://next/', None, None]],
                        security=dict(keys=list(sc.KEYS.values()), policies=[]))}
    har = bp_net.BpHarness(dict(nodes=nodes), sched, verbose)
    run = Run()
    run.har = har
    run.wld = har.wld
    run.plan = plan
    run.viols = []
    run.stats = {}
    try:
        _drive(run, plan, har)
    finally:
        har.close()
    return run


def _covered(pieces, total):
    have = bytearray(total)
    for (lo, hi) in pieces:
        for pos in range(lo, hi):
            have[pos] = 1
    return all(have) if total else True


def _drive(run, plan, har):
    origs = plan['origs']
    frags = [fragments_of(orig) for orig in origs]
    got = {oix: [] for oix in range(len(origs))}
    complete_at = {}
    delivered = {}
    stats = run.stats
    last_pix = {}
    for (aix, (oix, pix)) in enumerate(plan['arrivals']):
        orig = origs[oix]
        if (oix, pix) in [(item[0], item[1]) for item in plan['arrivals'][:aix]]:
            stats['arr.duplicate'] = 1
            if oix in complete_at:
                stats['arr.dup_after_complete'] = 1
        if oix in last_pix and pix < last_pix[oix]:
            stats['arr.out_of_order'] = 1
        last_pix[oix] = pix
        if aix and plan['arrivals'][aix - 1][0] != oix:
            stats['arr.interleaved'] = 1
        mark = len(har.delivered['n1'])
        har.receive('n1', frags[oix][pix])
        har.settle()
        got[oix].append(tuple(orig['pieces'][pix]))
        if oix not in complete_at and _covered(got[oix], orig['plen']):
            complete_at[oix] = aix
        new = har.delivered['n1'][mark:]
        for rec in new:
            key = rec['ident']
            match = [ix for (ix, org) in enumerate(origs) if (org['source'], org['time'], org['seqno']) == key[:3]]
            where = 'after arrival #%d (original %d piece %d)' % (aix, oix, pix)
            if len(key) > 3:
                run.viols.append(('deliver', 'fragment-delivered', 'a fragment bundle itself reached the application %s' % where))
                return
            if not match:
                run.viols.append(('deliver', 'unknown-identity', 'delivery of unknown identity %r %s' % (key, where)))
                return
            dix = match[0]
            if dix not in complete_at:
                run.viols.append(('early', 'delivered-with-gap-' + origs[dix]['style'], 'original %d was delivered %s while payload octets are still missing (have %r of %d)' % (
                    dix, where, sorted(got[dix]), origs[dix]['plen'])))
                return
            if dix in delivered:
                run.viols.append(('once', 'delivered-twice', 'original %d was delivered a second time %s' % (dix, where)))
                return
            delivered[dix] = rec
            want = bc.body(origs[dix]['tag'], origs[dix]['plen'])
            if rec['payload'] != want:
                other = [ix for (ix, org) in enumerate(origs) if ix != dix and any(rec['payload'][lo:hi] == bc.body(org['tag'], org['plen'])[lo:hi] and hi > lo
                                                                                    for (lo, hi) in org['pieces'] if hi <= len(rec['payload']))]
                run.viols.append(('payload', 'mixed' if other else 'altered', 'reassembled payload of original %d differs from what was sent (%d vs %d octets)' % (
                    dix, len(rec['payload']), len(want))))
                return
            want_ext = sorted((blk['type'], blk['btsd']) for blk in _blocks(origs[dix], _primary(origs[dix]))[:-1])
            got_ext = sorted((typ, data) for (typ, _num, data) in rec['blocks'] if typ != 1)
            if got_ext != want_ext:
                run.viols.append(('ext-blocks', 'not-first-fragment', 'reassembled bundle carries extension blocks %r, first fragment had %r' % (
                    [item[0] for item in got_ext], [item[0] for item in want_ext])))
                return
        # completeness must show up once the loop is quiescent
        for (dix, when) in complete_at.items():
            if dix not in delivered:
                run.viols.append(('missing', 'complete-not-delivered-' + origs[dix]['style'], 'original %d is fully covered since arrival #%d but was not delivered (pieces %r of %d)' % (
                    dix, when, sorted(got[dix]), origs[dix]['plen'])))
                return
    if delivered:
        stats['done.reassembled'] = len(delivered)


def judge(run):
    return run.viols


def describe(run):
    plan = run.plan
    counters = dict(run.wld.counters)
    counters.update(run.stats)
    styles = set(orig['style'] for orig in plan['origs'])
    if 'overlap' in styles:
        counters['cut.overlapping'] = 1
    if any(orig['style'] == 'whole' for orig in plan['origs']):
        counters['cut.whole_payload_fragment'] = 1
    if 'uneven' in styles:
        counters['cut.uneven'] = 1
    if any(orig.get('bib') for orig in plan['origs']):
        counters['orig.with_integrity_block'] = 1
    if plan['dropped']:
        counters['fault.drop'] = 1
    if len(plan['origs']) > 1:
        if len(set(orig['source'] for orig in plan['origs'])) == 1:
            counters['orig.same_source'] = 1
        if len(set(orig['time'] for orig in plan['origs'])) == 1:
            counters['orig.same_time'] = 1
    nontrivial = bool(counters.get('arr.out_of_order') or counters.get('arr.duplicate') or counters.get('arr.interleaved'))
    sample = dict(origs=[dict(source=orig['source'], time=orig['time'], seqno=orig['seqno'], plen=orig['plen'], pieces=orig['pieces'],
                              blocks=[(blk['type'], blk['flags']) for blk in orig['blocks']]) for orig in plan['origs']],
                  arrivals=plan['arrivals'], dropped=plan['dropped'])
    return dict(nontrivial=nontrivial, key=bc.digest(plan), sim_us=run.wld.now, steps=run.wld.steps, capped=run.wld.capped, counters=counters, sample=sample)
