''' Observation extraction and oracles shared by the TCPCL properties
(C01 C04 C09 C14 C18; engine E1).
'''
from ref import rfc9174

OTHER = {'A': 'P', 'P': 'A'}

COMPONENTS = dict(
    real=['tcpcl.agent.Agent', 'tcpcl.session.ContactHandler/Messenger/Connection', 'tcpcl.messages/contact/formats/extend',
          'scapy', 'repo code at /repo/src working tree'],
    simulated=['GLib main contexts + clock (dsim.world/glibmod)', 'TCP sockets and network (dsim.net)',
               'D-Bus daemon and marshalling (dsim.dbusmod, ref.dbus_sig)', 'TLS record layer (dsim.tls, unused unless C15)'],
    stub=['yaml (import only)'],
)


class Obs:
    ''' Everything the oracles look at, extracted from one finished run. '''

    def __init__(self, har):
        self.har = har
        self.wld = har.wld
        self.plan = har.plan
        self.signals = {'A': [], 'P': []}
        self.escaped = []
        self.marshal_errors = []
        self.faults = []
        self.tcp_close = {}
        self.hang = getattr(har, 'hang', False)
        self.dbus_returns = []
        for evt in self.wld.hist:
            kind = evt[3]
            if kind == 'dbus-signal':
                if evt[2] in self.signals:
                    self.signals[evt[2]].append((evt[0], evt[1], evt[4], evt[5], evt[7]))
            elif kind == 'escaped-exception':
                self.escaped.append(evt)
            elif kind == 'dbus-marshal-error':
                self.marshal_errors.append(evt)
            elif kind == 'fault':
                self.faults.append(evt)
            elif kind == 'tcp-close':
                self.tcp_close.setdefault(evt[2], evt)
            elif kind == 'dbus-return':
                self.dbus_returns.append(evt)
        # wire decode of the first connection
        self.wire = {'A': [], 'P': []}       # messages written by each side
        self.wire_err = {'A': None, 'P': None}
        self.wire_pending = {'A': 0, 'P': 0}
        self.merged = []                      # (seq, side, msg) in completion order
        if har.net.conns:
            conn = har.net.conns[0]
            for (side, pipe) in (('A', conn.a2b), ('P', conn.b2a)):
                dec = rfc9174.StreamDecoder()
                for (seq, when, data) in pipe.tap:
                    for msg in dec.feed(data, (seq, when)):
                        self.wire[side].append(msg)
                        self.merged.append((seq, side, msg))
                self.wire_err[side] = dec.error
                self.wire_pending[side] = dec.pending()
            self.merged.sort(key=lambda item: item[0])

    def sig(self, side, member, path=None):
        path = path or self.har.contact[side]
        return [item for item in self.signals[side] if item[3] == member and item[2] == path]

    def terminated(self):
        ''' True when any SESS_TERM, close, kill or fault occurred. '''
        if self.faults:
            return True
        for side in ('A', 'P'):
            if any(msg['kind'] == 'SESS_TERM' for msg in self.wire[side]):
                return True
        return bool(self.tcp_close)

    def wire_transfers(self, side):
        ''' Completed transfers (tid, body) as an independent reader of the
        octets written by ``side`` reassembles them; plus anomalies. '''
        out = []
        cur = None
        anomalies = []
        for msg in self.wire[side]:
            if msg['kind'] != 'XFER_SEGMENT':
                continue
            if msg['flags'] & rfc9174.FLAG_START:
                if cur is not None:
                    anomalies.append('START inside transfer %d' % cur[0])
                cur = [msg['transfer_id'], bytearray()]
            if cur is None or cur[0] != msg['transfer_id']:
                anomalies.append('stray segment of %d' % msg['transfer_id'])
                continue
            cur[1] += msg['data']
            if msg['flags'] & rfc9174.FLAG_END:
                out.append((cur[0], bytes(cur[1]), msg['stamp']))
                cur = None
        return (out, anomalies, cur)


def len_class(size):
    if size == 0:
        return 'len=0'
    return 'len>0'


def stall_cause(obs, size=None):
    ''' Discriminator for liveness violations: the most specific root-cause
    hint visible in the history. '''
    if obs.escaped:
        evt = obs.escaped[0]
        return 'after-%s@%s' % (evt[4], evt[5])
    if obs.wld.counters.get('tcp.eagain'):
        return 'after-eagain'
    if size == 0:
        return 'len=0'
    if obs.tcp_close:
        return 'after-close'
    return 'plain'


def check_delivery(obs, need_liveness):
    ''' C01 clauses. Returns list of (clause, discriminator, detail). '''
    out = []
    har = obs.har
    for src in ('A', 'P'):
        dst = OTHER[src]
        queue = har.queued[src]
        bodies = {item[1]: item[3] for item in queue}
        order = [item[1] for item in queue]
        # (a) announcements at the receiver are a prefix of what was queued
        fins = obs.sig(dst, 'recv_bundle_finished') if har.contact[dst] else []
        seen = set()
        good = [fin for fin in fins if fin[4][2] == 'success']
        for (kix, fin) in enumerate(good):
            (bid, length, _res) = fin[4]
            if bid in seen:
                out.append(('duplicate', 'recv_bundle_finished-twice', '%s announced transfer %s twice' % (dst, bid)))
                continue
            seen.add(bid)
            if kix >= len(order):
                out.append(('spurious', 'more-received-than-queued', '%s announced %s but peer queued only %d' % (dst, bid, len(order))))
                continue
            if bid != order[kix]:
                out.append(('order', 'announce-order', '%s announced transfer %s as #%d, expected %s' % (dst, bid, kix, order[kix])))
            elif length != len(bodies[bid]):
                out.append(('intact', 'announce-length', '%s announced %s with %d octets, queued %d' % (dst, bid, length, len(bodies[bid]))))
        # (b) popped bodies
        popseen = set()
        for (_seq, bid, data) in har.popped[dst]:
            if bid in popseen:
                out.append(('duplicate', 'popped-twice', '%s popped transfer %s twice' % (dst, bid)))
                continue
            popseen.add(bid)
            if bid not in bodies:
                out.append(('spurious', 'popped-unknown', '%s popped unknown transfer %s (%d octets)' % (dst, bid, len(data))))
            elif data != bodies[bid]:
                why = 'truncated' if bodies[bid].startswith(data) else ('extended' if data.startswith(bodies[bid]) else 'altered')
                out.append(('intact', 'body-' + why, '%s popped %s: %d octets vs %d queued' % (dst, bid, len(data), len(bodies[bid]))))
            if bid not in seen:
                out.append(('spurious', 'popped-unannounced', '%s popped %s that was never announced finished' % (dst, bid)))
        # (d) success only after receipt
        rx_seq = {fin[4][0]: fin[0] for fin in good}
        done = set()
        for fin in (obs.sig(src, 'send_bundle_finished') if har.contact[src] else []):
            (tid, length, res) = fin[4]
            if res != 'success':
                continue
            if tid in done:
                out.append(('duplicate', 'send-finished-twice', '%s signalled success for %s twice' % (src, tid)))
            done.add(tid)
            if tid not in rx_seq or rx_seq[tid] > fin[0]:
                out.append(('early-success', 'success-before-receipt', '%s signalled success for %s before %s held it' % (src, tid, dst)))
            if tid in bodies and length != len(bodies[tid]):
                out.append(('intact', 'success-length', '%s success for %s says %d, queued %d' % (src, tid, length, len(bodies[tid]))))
        # (e) the wire agrees
        (wired, anomalies, _cur) = obs.wire_transfers(src)
        for (kix, (tid, data, _stamp)) in enumerate(wired):
            if kix >= len(order):
                out.append(('spurious', 'wire-extra-transfer', '%s wrote transfer %d beyond its queue' % (src, tid)))
            elif str(tid) != order[kix] or data != bodies[order[kix]]:
                out.append(('intact', 'wire-mismatch', '%s wrote transfer %d (%d octets) as #%d, queued %s (%d octets)' % (
                    src, tid, len(data), kix, order[kix], len(bodies[order[kix]]))))
        for text in anomalies:
            out.append(('intact', 'wire-merge', '%s: %s' % (src, text)))
        # (f) bounded liveness
        if need_liveness:
            for tid in order:
                if tid not in seen:
                    out.append(('stall', 'undelivered-' + stall_cause(obs, len(bodies[tid])),
                                'transfer %s of %s (%d octets) never reached %s within the horizon' % (tid, src, len(bodies[tid]), dst)))
                    break
                if tid not in popseen:
                    out.append(('stall', 'unpoppable', 'transfer %s announced at %s but not in its queue' % (tid, dst)))
                    break
                if tid not in done:
                    out.append(('stall', 'unacknowledged-' + stall_cause(obs, len(bodies[tid])),
                                'transfer %s of %s delivered but never reported success' % (tid, src)))
                    break
    if obs.hang:
        out.append(('stall', 'callback-hang', 'a callback never returned (watchdog)'))
    return out


def check_grammar(obs):
    ''' C04: RFC 9174 grammar over both wire taps. '''
    out = []
    gram = {'A': rfc9174.Grammar('A'), 'P': rfc9174.Grammar('P')}
    for (_seq, side, msg) in obs.merged:
        gram[side].sent(msg)
        gram[OTHER[side]].peer_sent(msg)
    for side in ('A', 'P'):
        for (clause, detail) in gram[side].errors:
            out.append((clause, _grammar_discr(clause, detail), '%s: %s' % (side, detail)))
        if obs.wire_err[side] is not None:
            out.append(('decode', 'undecodable-output', '%s wrote octets no RFC 9174 decoder accepts at offset %d: %s' % (
                side, obs.wire_err[side][0], obs.wire_err[side][1])))
        elif obs.wire_pending[side]:
            # a partial message is legal only when the socket was closed or reset there
            closed = side in obs.tcp_close or any(flt[4] in ('reset', 'kill', 'blackhole') for flt in obs.faults)
            if not closed:
                out.append(('decode', 'partial-message-at-end', '%s left %d octets of an incomplete message on an open connection' % (
                    side, obs.wire_pending[side])))
    return out


def _grammar_discr(clause, detail):
    words = detail.split()
    if clause == 'order':
        return words[0] if words else clause
    if clause == 'ack':
        return 'length' if 'cumulative' in detail else ('flags' if 'flags' in detail else 'id')
    return clause


def check_no_escape(obs):
    out = []
    for evt in obs.escaped:
        out.append(('escaped-exception', '%s@%s' % (evt[4], evt[5]), '%s escaped from %s (%s) via callback %s in node %s' % (
            evt[4], evt[5], evt[6], evt[7], evt[2])))
    return out


def check_dbus_types(obs):
    out = []
    for evt in obs.marshal_errors:
        out.append(('dbus-type', '%s:%s' % (evt[4], evt[6]), '%s %s does not conform to signature %r: args %r (%s)' % (
            evt[4], evt[6], evt[7], evt[8], evt[9])))
    return out


def describe(obs, extra_counters=None):
    wld = obs.wld
    har = obs.har
    counters = dict(wld.counters)
    ndeliv = sum(len(har.popped[side]) for side in ('A', 'P'))
    nseg = sum(1 for (_s, _side, msg) in obs.merged if msg['kind'] == 'XFER_SEGMENT')
    counters['bundles.delivered'] = ndeliv
    counters['wire.segments'] = nseg
    counters['wire.messages'] = len(obs.merged)
    for (_s, _side, msg) in obs.merged:
        if msg['kind'] in ('SESS_TERM', 'KEEPALIVE', 'MSG_REJECT', 'XFER_REFUSE'):
            counters['wire.' + msg['kind']] = counters.get('wire.' + msg['kind'], 0) + 1
    if extra_counters:
        counters.update(extra_counters)
    sample = dict(
        cfg=obs.plan.get('cfg'), chunk_size=obs.plan.get('chunk_size'), net=obs.plan.get('net'),
        ops=[op for op in obs.plan.get('ops', [])][:12], faults=obs.plan.get('faults', [])[:6],
        wire=['%s:%s' % (side, _msg_brief(msg)) for (_s, side, msg) in obs.merged[:24]],
        steps=wld.steps, sim_s=wld.now / 1e6,
    )
    return dict(
        nontrivial=bool(ndeliv or nseg) and wld.steps > 10,
        key=wld.digest(), sim_us=wld.now, steps=wld.steps, capped=wld.capped,
        counters=counters, sample=sample,
    )


def _msg_brief(msg):
    kind = msg['kind']
    if kind == 'XFER_SEGMENT':
        return 'SEG(id=%d,f=%d,n=%d)' % (msg['transfer_id'], msg['flags'], len(msg['data']))
    if kind == 'XFER_ACK':
        return 'ACK(id=%d,f=%d,len=%d)' % (msg['transfer_id'], msg['flags'], msg['length'])
    if kind == 'SESS_INIT':
        return 'SESS_INIT(ka=%d,mru=%d)' % (msg['keepalive'], msg['segment_mru'])
    if kind == 'SESS_TERM':
        return 'SESS_TERM(f=%d,r=%d)' % (msg['flags'], msg['reason'])
    return kind


def plan_is_graceful_open(plan):
    ''' True when nothing in the plan may legitimately end the session: no
    faults, no terminate/close/shutdown operations, no idle timer. Then every
    queued bundle must arrive (bounded liveness). '''
    if plan.get('faults'):
        return False
    for op in plan.get('ops', ()):
        if op['op'] in ('terminate', 'close', 'shutdown', 'stop'):
            return False
    for side in ('A', 'P'):
        if plan['cfg'][side].get('idle_time'):
            return False
    return bool(plan.get('prof', {}).get('liveness', True))
