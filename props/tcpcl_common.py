''' Observation extraction and oracles shared by the TCPCL properties
(C01 C04 C09 C14 C18; engine E1).
'''
from ref import rfc9174

OTHER = {'A': 'P', 'P': 'A'}

COMPONENTS = dict(
    real=['tcpcl.agent.Agent', 'tcpcl.session.ContactHandler/Messenger/Connection', 'tcpcl.messages/contact/formats/extend',
          'scapy', 'repo code at /repo/src working tree'],
    simulated=['GLib main contexts + clock (dsim.world/glibmod)', 'TCP sockets and network (dsim.net)',
               'D-Bus daemon and marshalling (dsim.dbusmod, ref.dbus_sig)', 'TLS record layer (dsim.tls, unused unless C15)'],
    stub=['yaml (import only)'],
)


class Obs:
    ''' Everything the oracles look at, extracted from one finished run. '''

    def __init__(self, har):
        self.har = har
        self.wld = har.wld
        self.plan = har.plan
        self.signals = {'A': [], 'P': []}
        self.escaped = []
        self.marshal_errors = []
        self.faults = []
        self.tcp_close = {}
        self.hang = getattr(har, 'hang', False)
        self.dbus_returns = []
        for evt in self.wld.hist:
            kind = evt[3]
            if kind == 'dbus-signal':
                if evt[2] in self.signals:
                    self.signals[evt[2]].append((evt[0], evt[1], evt[4], evt[5], evt[7]))
            elif kind == 'escaped-exception':
                self.escaped.append(evt)
            elif kind == 'dbus-marshal-error':
                self.marshal_errors.append(evt)
            elif kind == 'fault':
                self.faults.append(evt)
            elif kind == 'tcp-close':
                self.tcp_close.setdefault(evt[2], evt)
            elif kind == 'dbus-return':
                self.dbus_returns.append(evt)
        # wire decode of the first connection
        self.wire = {'A': [], 'P': []}       # messages written by each side
        self.wire_err = {'A': None, 'P': None}
        self.wire_pending = {'A': 0, 'P': 0}
        self.merged = []                      # (seq, side, msg) in completion order
        if har.net.conns:
            conn = har.net.conns[0]
            for (side, pipe) in (('A', conn.a2b), ('P', conn.b2a)):
                dec = rfc9174.StreamDecoder()
                for (seq, when, data) in pipe.tap:
                    for msg in dec.feed(data, (seq, when)):
                        self.wire[side].append(msg)
                        self.merged.append((seq, side, msg))
                self.wire_err[side] = dec.error
                self.wire_pending[side] = dec.pending()
            self.merged.sort(key=lambda item: item[0])

    def sig(self, side, member, path=None):
        path = path or self.har.contact[side]
        return [item for item in self.signals[side] if item[3] == member and item[2] == path]

    def terminated(self):
        ''' True when any SESS_TERM, close, kill or fault occurred. '''
        if self.faults:
            return True
        for side in ('A', 'P'):
            if any(msg['kind'] == 'SESS_TERM' for msg in self.wire[side]):
                return True
        return bool(self.tcp_close)

    def wire_transfers(self, side):
        ''' Completed transfers (tid, body) as an independent reader of the
        octets written by ``side`` reassembles them; plus anomalies. '''
        out = []
        cur = None
        anomalies = []
        for msg in self.wire[side]:
            if msg['kind'] != 'XFER_SEGMENT':
                continue
            if msg['flags'] & rfc9174.FLAG_START:
                if cur is not None:
                    anomalies.append('START inside transfer %d' % cur[0])
                cur = [msg['transfer_id'], bytearray()]
            if cur is None or cur[0] != msg['transfer_id']:
                anomalies.append('stray segment of %d' % msg['transfer_id'])
                continue
            cur[1] += msg['data']
            if msg['flags'] & rfc9174.FLAG_END:
                out.append((cur[0], bytes(cur[1]), msg['stamp']))
                cur = None
        return (out, anomalies, cur)


def len_class(size):
    if size == 0:
        return 'len=0'
    return 'len>0'


def stall_cause(obs, size=None):
    ''' Discriminator for liveness violations: the most specific root-cause
    hint visible in the history. '''
    if obs.escaped:
        evt = obs.escaped[0]
        return 'after-%s@%s' % (evt[4], evt[5])
    if obs.wld.counters.get('tcp.eagain'):
        return 'after-eagain'
    if size == 0:
        return 'len=0'
    if obs.tcp_close:
        return 'after-close'
    return 'plain'


def check_delivery(obs, need_liveness):
    ''' C01 clauses. Returns list of (clause, discriminator, detail). '''
    out = []
    har = obs.har
    for src in ('A', 'P'):
        dst = OTHER[src]
        queue = har.queued[src]
        bodies = {item[1]: item[3] for item in queue}
        order = [item[1] for item in queue]
        # (a) announcements at the receiver are a prefix of what was queued
        fins = obs.sig(dst, 'recv_bundle_finished') if har.contact[dst] else []
        seen = set()
        good = [fin for fin in fins if fin[4][2] == 'success']
        for (kix, fin) in enumerate(good):
            (bid, length, _res) = fin[4]
            if bid in seen:
                out.append(('duplicate', 'recv_bundle_finished-twice', '%s announced transfer %s twice' % (dst, bid)))
                continue
            seen.add(bid)
            if kix >= len(order):
                out.append(('spurious', 'more-received-than-queued', '%s announced %s but peer queued only %d' % (dst, bid, len(order))))
                continue
            if bid != order[kix]:
                out.append(('order', 'announce-order', '%s announced transfer %s as #%d, expected %s' % (dst, bid, kix, order[kix])))
            elif length != len(bodies[bid]):
                out.append(('intact', 'announce-length', '%s announced %s with %d octets, queued %d' % (dst, bid, length, len(bodies[bid]))))
        # (b) popped bodies
        popseen = set()
        for (_seq, bid, data) in har.popped[dst]:
            if bid in popseen:
                out.append(('duplicate', 'popped-twice', '%s popped transfer %s twice' % (dst, bid)))
                continue
            popseen.add(bid)
            if bid not in bodies:
                out.append(('spurious', 'popped-unknown', '%s popped unknown transfer %s (%d octets)' % (dst, bid, len(data))))
            elif data != bodies[bid]:
                why = 'truncated' if bodies[bid].startswith(data) else ('extended' if data.startswith(bodies[bid]) else 'altered')
                out.append(('intact', 'body-' + why, '%s popped %s: %d octets vs %d queued' % (dst, bid, len(data), len(bodies[bid]))))
            if bid not in seen:
                out.append(('spurious', 'popped-unannounced', '%s popped %s that was never announced finished' % (dst, bid)))
        # (c) the receive queue presents the waiting bundles in the order they arrived (which (a) ties to the order queued)
        rank = {fin[4][0]: kix for (kix, fin) in enumerate(good)}
        for call in har.calls:
            if call[2] == dst and call[3] == 'recv_bundle_get_queue' and isinstance(call[5], list):
                listed = [rank[str(bid)] for bid in call[5] if str(bid) in rank]
                if listed != sorted(listed):
                    out.append(('order', 'queue-listing-order', '%s lists its receive queue as %s, arrival order is %s' % (
                        dst, [str(bid) for bid in call[5]], [fin[4][0] for fin in good if fin[4][0] in set(str(bid) for bid in call[5])])))
                    break
        # (d) success only after receipt
        rx_seq = {fin[4][0]: fin[0] for fin in good}
        done = set()
        for fin in (obs.sig(src, 'send_bundle_finished') if har.contact[src] else []):
            (tid, length, res) = fin[4]
            if res != 'success':
                continue
            if tid in done:
                out.append(('duplicate', 'send-finished-twice', '%s signalled success for %s twice' % (src, tid)))
            done.add(tid)
            if tid not in rx_seq or rx_seq[tid] > fin[0]:
                out.append(('early-success', 'success-before-receipt', '%s signalled success for %s before %s held it' % (src, tid, dst)))
            if tid in bodies and length != len(bodies[tid]):
                out.append(('intact', 'success-length', '%s success for %s says %d, queued %d' % (src, tid, length, len(bodies[tid]))))
        # (e) the wire agrees
        (wired, anomalies, _cur) = obs.wire_transfers(src)
        for (kix, (tid, data, _stamp)) in enumerate(wired):
            if kix >= len(order):
                out.append(('spurious', 'wire-extra-transfer', '%s wrote transfer %d beyond its queue' % (src, tid)))
            elif str(tid) != order[kix] or data != bodies[order[kix]]:
                out.append(('intact', 'wire-mismatch', '%s wrote transfer %d (%d octets) as #%d, queued %s (%d octets)' % (
                    src, tid, len(data), kix, order[kix], len(bodies[order[kix]]))))
        for text in anomalies:
            out.append(('intact', 'wire-merge', '%s: %s' % (src, text)))
        # (f) bounded liveness
        if need_liveness:
            for tid in order:
                if tid not in seen:
                    out.append(('stall', 'undelivered-' + stall_cause(obs, len(bodies[tid])),
                                'transfer %s of %s (%d octets) never reached %s within the horizon' % (tid, src, len(bodies[tid]), dst)))
                    break
                if tid not in popseen:
                    out.append(('stall', 'unpoppable', 'transfer %s announced at %s but not in its queue' % (tid, dst)))
                    break
                if tid not in done:
                    out.append(('stall', 'unacknowledged-' + stall_cause(obs, len(bodies[tid])),
                                'transfer %s of %s delivered but never reported success' % (tid, src)))
                    break
    if obs.hang:
        out.append(('stall', 'callback-hang', 'a callback never returned (watchdog)'))
    return out


def check_grammar(obs):
    ''' C04: RFC 9174 grammar over both wire taps. '''
    out = []
    gram = {'A': rfc9174.Grammar('A'), 'P': rfc9174.Grammar('P')}
    for (_seq, side, msg) in obs.merged:
        gram[side].sent(msg)
        gram[OTHER[side]].peer_sent(msg)
    for side in ('A', 'P'):
        for (clause, detail) in gram[side].errors:
            out.append((clause, _grammar_discr(clause, detail), '%s: %s' % (side, detail)))
        if obs.wire_err[side] is not None:
            out.append(('decode', 'undecodable-output', '%s wrote octets no RFC 9174 decoder accepts at offset %d: %s' % (
                side, obs.wire_err[side][0], obs.wire_err[side][1])))
        elif obs.wire_pending[side]:
            # a partial message is legal only when the socket was closed or reset there
            closed = side in obs.tcp_close or any(flt[4] in ('reset', 'kill', 'blackhole') for flt in obs.faults)
            if not closed:
                out.append(('decode', 'partial-message-at-end', '%s left %d octets of an incomplete message on an open connection' % (
                    side, obs.wire_pending[side])))
    return out


def _grammar_discr(clause, detail):
    words = detail.split()
    if clause == 'order':
        return words[0] if words else clause
    if clause == 'ack':
        return 'length' if 'cumulative' in detail else ('flags' if 'flags' in detail else 'id')
    return clause


def check_no_escape(obs):
    out = []
    for evt in obs.escaped:
        out.append(('escaped-exception', '%s@%s' % (evt[4], evt[5]), '%s escaped from %s (%s) via callback %s in node %s' % (
            evt[4], evt[5], evt[6], evt[7], evt[2])))
    return out


def check_dbus_types(obs):
    out = []
    for evt in obs.marshal_errors:
        out.append(('dbus-type', '%s:%s' % (evt[4], evt[6]), '%s %s does not conform to signature %r: args %r (%s)' % (
            evt[4], evt[6], evt[7], evt[8], evt[9])))
    return out


def describe(obs, extra_counters=None):
    wld = obs.wld
    har = obs.har
    counters = dict(wld.counters)
    ndeliv = sum(len(har.popped[side]) for side in ('A', 'P'))
    nseg = sum(1 for (_s, _side, msg) in obs.merged if msg['kind'] == 'XFER_SEGMENT')
    counters['bundles.delivered'] = ndeliv
    counters['wire.segments'] = nseg
    counters['wire.messages'] = len(obs.merged)
    for (_s, _side, msg) in obs.merged:
        if msg['kind'] in ('SESS_TERM', 'KEEPALIVE', 'MSG_REJECT', 'XFER_REFUSE'):
            counters['wire.' + msg['kind']] = counters.get('wire.' + msg['kind'], 0) + 1
    if extra_counters:
        counters.update(extra_counters)
    sample = dict(
        cfg=obs.plan.get('cfg'), chunk_size=obs.plan.get('chunk_size'), net=obs.plan.get('net'),
        ops=[op for op in obs.plan.get('ops', [])][:12], faults=obs.plan.get('faults', [])[:6],
        wire=['%s:%s' % (side, _msg_brief(msg)) for (_s, side, msg) in obs.merged[:24]],
        steps=wld.steps, sim_s=wld.now / 1e6,
    )
    return dict(
        nontrivial=bool(ndeliv or nseg) and wld.steps > 10,
        key=wld.digest(), sim_us=wld.now, steps=wld.steps, capped=wld.capped,
        counters=counters, sample=sample,
    )


def _msg_brief(msg):
    kind = msg['kind']
    if kind == 'XFER_SEGMENT':
        return 'SEG(id=%d,f=%d,n=%d)' % (msg['transfer_id'], msg['flags'], len(msg['data']))
    if kind == 'XFER_ACK':
        return 'ACK(id=%d,f=%d,len=%d)' % (msg['transfer_id'], msg['flags'], msg['length'])
    if kind == 'SESS_INIT':
        return 'SESS_INIT(ka=%d,mru=%d)' % (msg['keepalive'], msg['segment_mru'])
    if kind == 'SESS_TERM':
        return 'SESS_TERM(f=%d,r=%d)' % (msg['flags'], msg['reason'])
    return kind


def plan_is_graceful_open(plan):
    ''' True when nothing in the plan may legitimately end the session: no
    faults, no terminate/close/shutdown operations, no idle timer. Then every
    queued bundle must arrive (bounded liveness). '''
    if plan.get('faults'):
        return False
    for op in plan.get('ops', ()):
        if op['op'] in ('terminate', 'close', 'shutdown', 'stop'):
            return False
    for side in ('A', 'P'):
        if plan['cfg'][side].get('idle_time'):
            return False
    return bool(plan.get('prof', {}).get('liveness', True))


# ---------------------------------------------------------------------------
# timelines
def state_times(obs, side):
    ''' {state: (seq, time)} of the first entry into each session state. '''
    out = {}
    if obs.har.contact[side] is None:
        return out
    for item in obs.sig(side, 'session_state_changed'):
        out.setdefault(item[4][0], (item[0], item[1]))
    return out


def rx_progress(obs, side):
    ''' List of (seq, time, cumulative octets read by ``side`` from its socket). '''
    pipe_name = 'b2a' if side == 'A' else 'a2b'
    total = 0
    out = []
    for evt in obs.wld.hist:
        if evt[3] == 'tcp-recv' and evt[5] == pipe_name and evt[4] == 0:
            total += evt[6]
            out.append((evt[0], evt[1], total))
    return out


def read_stamp(progress, offset):
    ''' (seq, time) at which the reader had consumed ``offset`` octets. '''
    for (seq, when, total) in progress:
        if total >= offset:
            return (seq, when)
    return None


def injected_stall_us(plan):
    return sum(flt.get('dur', 0) for flt in plan.get('faults', ()) if flt['kind'] in ('stall', 'slow'))


def has_fault(plan, kinds):
    return any(flt['kind'] in kinds for flt in plan.get('faults', ()))


def has_op(plan, kinds):
    return any(op['op'] in kinds for op in plan.get('ops', ()))


# ---------------------------------------------------------------------------
def check_termination(obs):
    ''' C09 clauses (DESIGN 5/C09). '''
    out = []
    har = obs.har
    plan = obs.plan
    fired = set(flt[4] for flt in obs.faults)
    called = set(call[3] for call in har.calls)
    hard = bool(fired & {'reset', 'kill', 'blackhole'})
    user_close = bool(called & {'close', 'stop'})
    graceful = not hard and not user_close
    established = {side: 'established' in state_times(obs, side) for side in ('A', 'P')}
    ending = {side: state_times(obs, side).get('ending') for side in ('A', 'P')}
    terms = {side: [msg for msg in obs.wire[side] if msg['kind'] == 'SESS_TERM'] for side in ('A', 'P')}
    any_term = any(ending.values()) or any(terms.values())

    # (c) at most one SESS_TERM per direction, always
    for side in ('A', 'P'):
        if len(terms[side]) > 1:
            out.append(('sess-term', 'more-than-one', '%s wrote %d SESS_TERM messages' % (side, len(terms[side]))))

    if obs.hang:
        out.append(('close', 'callback-hang', 'a callback never returned (watchdog)'))
        return out

    progress = {side: rx_progress(obs, side) for side in ('A', 'P')}
    # an endpoint with an idle time may legitimately give up on a silent or slow
    # peer and close before the handshake completes (C14); then completion of
    # transfers and the peer's SESS_TERM cannot be demanded
    for side in ('A', 'P'):
        if plan['cfg'][side].get('idle_time') and side in obs.tcp_close:
            graceful = False
    if graceful and any_term and established['A'] and established['P']:
        for side in ('A', 'P'):
            peer = OTHER[side]
            # (c) exactly one each, REPLY iff decided after reading the peer's
            if len(terms[side]) == 0:
                out.append(('sess-term', 'missing-' + ('initiator' if ending[side] and (not ending[peer] or ending[side][0] < ending[peer][0]) else 'responder'),
                            '%s never wrote a SESS_TERM although the session was terminated' % side))
            elif ending[side] is not None and terms[peer]:
                peer_term_read = read_stamp(progress[side], terms[peer][0]['end'])
                is_reply = bool(terms[side][0]['flags'] & rfc9174.TERM_REPLY)
                if peer_term_read is not None and peer_term_read[0] < ending[side][0] and not is_reply:
                    out.append(('sess-term', 'reply-flag-missing', '%s answered a SESS_TERM without the REPLY flag' % side))
                if (peer_term_read is None or peer_term_read[0] > ending[side][0]) and is_reply:
                    out.append(('sess-term', 'reply-flag-spurious', '%s initiated termination with the REPLY flag set' % side))
            # (a) transfers in progress complete
            started = obs.sig(side, 'send_bundle_started')
            fin_tx = {fin[4][0]: fin for fin in obs.sig(side, 'send_bundle_finished')}
            fin_rx = {fin[4][0]: fin for fin in obs.sig(peer, 'recv_bundle_finished')}
            for item in started:
                tid = item[4][0]
                if ending[side] is not None and item[0] > ending[side][0]:
                    # (b) a transfer started after the node began terminating
                    out.append(('new-transfer', 'started-after-term', '%s started transfer %s after it began terminating' % (side, tid)))
                    continue
                if tid not in fin_rx or fin_rx[tid][4][2] != 'success':
                    out.append(('in-progress', 'not-delivered-' + stall_cause(obs), 'transfer %s of %s was in progress at termination and never completed at %s' % (tid, side, peer)))
                elif tid not in fin_tx or fin_tx[tid][4][2] != 'success':
                    out.append(('in-progress', 'not-acknowledged-' + stall_cause(obs), 'transfer %s of %s was delivered but %s never reported success' % (tid, side, side)))
            # (d) queued but unstarted are reported not sent, exactly once
            started_ids = set(item[4][0] for item in started)
            counts = {}
            for fin in obs.sig(side, 'send_bundle_finished'):
                counts[fin[4][0]] = counts.get(fin[4][0], 0) + 1
            for (_seq, tid, _tag, _body) in har.queued[side]:
                if counts.get(tid, 0) > 1:
                    out.append(('finished-once', 'finished-twice', '%s emitted send_bundle_finished for %s %d times' % (side, tid, counts[tid])))
                if tid in started_ids:
                    continue
                if counts.get(tid, 0) == 0:
                    out.append(('unstarted', 'silently-lost', 'transfer %s queued at %s was neither started nor reported as not sent' % (tid, side)))
                elif tid in fin_tx and fin_tx[tid][4][2] == 'success':
                    out.append(('unstarted', 'success-without-start', 'transfer %s of %s reported success without starting' % (tid, side)))

    # (e) bounded liveness of closing: once termination began and faults healed
    want_close = any_term and 'blackhole' not in fired and established['A'] and established['P']
    if fired & {'reset', 'kill'}:
        want_close = True
    if user_close and not hard:
        want_close = True
    if want_close and not obs.wld.capped:
        for side in ('A', 'P'):
            if not har.node[side].alive:
                continue
            if not har.opened[side]:
                continue
            if fired & {'reset', 'kill'} and not any_term and not _saw_disconnect(obs, side):
                # a survivor that never touched the dead socket cannot know yet
                continue
            if 'blackhole' in fired and not (plan['cfg'][side].get('idle_time') and 'established' in state_times(obs, side)):
                # nothing reaches this endpoint any more: only its own idle timer can end the session
                continue
            if len(har.closed[side]) < len(har.opened[side]):
                out.append(('close', 'half-open-' + stall_cause(obs), '%s still holds an open contact at the end of the run (opened %d, closed %d)' % (
                    side, len(har.opened[side]), len(har.closed[side]))))
            elif har.agent[side]._handlers:
                out.append(('close', 'handler-leak', '%s agent still lists %d handlers' % (side, len(har.agent[side]._handlers))))
    # (d') whenever a contact went away, for whatever reason and in whatever state (also before the session was
    # established), the bundles queued on it and never started are reported, not silently dropped
    have = set(item[1] for item in out)
    for side in ('A', 'P'):
        path = har.contact[side]
        if path is None or path not in har.closed[side] or not har.node[side].alive or 'silently-lost' in have:
            continue
        closed_seq = max(item[0] for item in obs.signals[side] if item[3] == 'connection_closed' and item[4][0] == path)
        started_ids = set(item[4][0] for item in obs.sig(side, 'send_bundle_started'))
        finished_ids = set(item[4][0] for item in obs.sig(side, 'send_bundle_finished'))
        for (qseq, tid, _tag, _body) in har.queued[side]:
            if qseq < closed_seq and tid not in started_ids and tid not in finished_ids:
                out.append(('unstarted', 'silently-lost', 'transfer %s queued at %s was neither started nor reported as not sent when the contact closed' % (tid, side)))
                break
    return out


def _saw_disconnect(obs, side):
    pipe_name = 'b2a' if side == 'A' else 'a2b'
    for evt in obs.wld.hist:
        if evt[3] in ('tcp-recv-eof',) and evt[5] == pipe_name:
            return True
        if evt[3] == 'tcp-arrive-fin' and evt[5] == pipe_name:
            return True
    return any(flt[4] == 'reset' for flt in obs.faults)


# ---------------------------------------------------------------------------
def check_params_and_timers(obs):
    ''' C14 clauses. '''
    out = []
    har = obs.har
    plan = obs.plan
    cfg = plan['cfg']
    tol = 500000 + injected_stall_us(plan)
    inits = {side: [msg for msg in obs.wire[side] if msg['kind'] == 'SESS_INIT'] for side in ('A', 'P')}
    both_init = bool(inits['A']) and bool(inits['P'])
    # negotiated values as reported
    for call in har.calls:
        (_seq, _when, side, member, _args, ret) = call
        if member != 'get_session_parameters' or not isinstance(ret, dict) or not ret:
            continue
        peer = OTHER[side]
        if not inits[peer]:
            out.append(('params', 'reported-before-init', '%s reported session parameters before the peer SESS_INIT' % side))
            continue
        pinit = inits[peer][0]
        want = dict(
            keepalive=min(cfg['A']['keepalive_time'], cfg['P']['keepalive_time']),
            peer_nodeid=pinit['nodeid'].decode('utf8'),
            peer_segment_mru=min(pinit['segment_mru'], 2**31 - 1),
            peer_transfer_mru=min(pinit['transfer_mru'], 2**31 - 1),
        )
        for (key, val) in want.items():
            got = ret.get(key)
            if got is None or (int(got) if isinstance(val, int) else str(got)) != val:
                out.append(('params', key, '%s reports %s=%r, negotiated/announced value is %r' % (side, key, got, val)))
    # segment sizes against the announced MRU come from the grammar automaton
    for (clause, discr, detail) in check_grammar(obs):
        if clause == 'mru':
            out.append(('mru', discr, detail))
    # bounded socket buffers: only the plans that say so (C14, stall runs) are judged on timing, and only on the keepalive cadence
    bounded = plan['net'].get('tcp_capacity', 0) < (1 << 29)
    if not both_init or (bounded and not plan.get('bounded')):
        return out
    keepalive = min(cfg['A']['keepalive_time'], cfg['P']['keepalive_time'])
    end_time = har.end_time if har.end_time is not None else obs.wld.now
    for side in ('A', 'P'):
        peer = OTHER[side]
        stt = state_times(obs, side)
        if 'established' not in stt:
            continue
        t_est = stt['established'][1]
        t_end = end_time
        closing = None
        if 'ending' in stt:
            closing = stt['ending'][1]
        if side in obs.tcp_close:
            closing = min(closing, obs.tcp_close[side][1]) if closing is not None else obs.tcp_close[side][1]
        if not har.node[side].alive:
            kill = [flt[1] for flt in obs.faults if flt[4] == 'kill' and flt[5] == side]
            if kill:
                closing = min([closing] + kill) if closing is not None else min(kill)
        if closing is not None:
            t_end = closing
        # keepalive spacing of own output while established
        # every write to the socket counts (under back-pressure a large message takes a while, its decode stamp is its last octet)
        sends = sorted([msg['stamp'][1] for msg in obs.wire[side] if t_est <= msg['stamp'][1] <= t_end]
                       + [evt[1] for evt in obs.wld.hist if evt[3] == 'tcp-send' and evt[2] == side and t_est <= evt[1] <= t_end])
        if keepalive > 0:
            marks = [t_est] + sends + [t_end]
            for (prev, nxt) in zip(marks, marks[1:]):
                # only a stall (of the link or of a process) that overlaps the silent interval can have stretched it
                gap_tol = 500000 + sum(flt[6] for flt in obs.faults if flt[4] in ('stall', 'slow') and flt[1] <= nxt and flt[1] + flt[6] >= prev)
                if nxt - prev > keepalive * 10**6 + gap_tol:
                    out.append(('keepalive', 'gap', '%s wrote nothing for %.3f s (from t=%.3f) although keepalive is %d s' % (
                        side, (nxt - prev) / 1e6, prev / 1e6, keepalive)))
                    break
        # idle timeout
        idle = cfg[side]['idle_time']
        if bounded:
            continue
        if idle > 0:
            pipe_in = 'b2a' if side == 'A' else 'a2b'
            pipe_out = 'a2b' if side == 'A' else 'b2a'
            traffic = [t_est]
            for evt in obs.wld.hist:
                if evt[3] == 'tcp-recv' and evt[5] == pipe_in and t_est <= evt[1] <= t_end:
                    traffic.append(evt[1])
                elif evt[3] == 'tcp-send' and evt[5] == pipe_out and t_est <= evt[1] <= t_end:
                    traffic.append(evt[1])
            traffic.sort()
            marks = traffic + [t_end]
            for (prev, nxt) in zip(marks, marks[1:]):
                if nxt - prev > idle * 10**6 + tol:
                    out.append(('idle', 'timeout-missed', '%s saw no traffic for %.3f s with idle time %d s and did not start termination' % (
                        side, (nxt - prev) / 1e6, idle)))
                    break
            # an idle-timeout SESS_TERM must really follow an idle period
            for msg in obs.wire[side]:
                if msg['kind'] == 'SESS_TERM' and msg['reason'] == 1 and not msg['flags'] & rfc9174.TERM_REPLY:
                    begin = msg['start_stamp'][1]
                    before = [when for when in traffic if when < begin]
                    last = max(before) if before else t_est
                    if begin - last < idle * 10**6 - tol:
                        out.append(('idle', 'timeout-early', '%s sent idle-timeout SESS_TERM only %.3f s after traffic, idle time is %d s' % (
                            side, (msg['stamp'][1] - last) / 1e6, idle)))
            # a terminating endpoint that hears nothing still closes
            if 'ending' in stt and har.node[side].alive:
                t_term = stt['ending'][1]
                heard = [evt[1] for evt in obs.wld.hist if evt[3] == 'tcp-recv' and evt[5] == pipe_in and evt[1] > t_term]
                eof = [evt[1] for evt in obs.wld.hist if evt[3] == 'tcp-recv-eof' and evt[5] == pipe_in]
                # its own keepalives are not something it hears: only other output (segments of a transfer still being sent) excuses it
                sent_after = [msg['stamp'][1] for msg in obs.wire[side] if msg['stamp'][1] > t_term + 1000 and msg['kind'] != 'KEEPALIVE']
                if not heard and not eof and not sent_after and side not in obs.tcp_close:
                    if end_time - t_term > idle * 10**6 + tol:
                        out.append(('idle', 'terminating-never-closes', '%s began terminating at %.3f s, heard nothing, and had not closed %.3f s later (idle time %d s)' % (
                            side, t_term / 1e6, (end_time - t_term) / 1e6, idle)))
    return out


# ---------------------------------------------------------------------------
def check_dbus_consistency(obs, final_idle_expected):
    ''' C18 sequential model of the queue / idle view. '''
    out = []
    har = obs.har
    for side in ('A', 'P'):
        peer = OTHER[side]
        path = har.contact[side]
        if path is None:
            continue
        rx_fin = [(fin[0], fin[4][0]) for fin in obs.sig(side, 'recv_bundle_finished')]
        rx_start = [(item[0], item[4][0]) for item in obs.sig(side, 'recv_bundle_started')]
        tx_fin = [(fin[0], fin[4][0]) for fin in obs.sig(side, 'send_bundle_finished')]
        tx_start = [(item[0], item[4][0]) for item in obs.sig(side, 'send_bundle_started')]
        closed_seq = None
        for item in obs.signals[side]:
            if item[3] == 'connection_closed' and item[4][0] == path:
                closed_seq = item[0]
        # finished at most once per transfer
        for (name, fins) in (('recv', rx_fin), ('send', tx_fin)):
            seen = set()
            for (_seq, bid) in fins:
                if bid in seen:
                    out.append(('finished-once', name + '-finished-twice', '%s emitted %s_bundle_finished twice for %s' % (side, name, bid)))
                seen.add(bid)
        # ... and exactly once when the session ended gracefully: both SESS_TERM on the wire, nothing cut the connection, nobody gave up
        plan = har.plan
        graceful = (not plan.get('faults') and not any(op['op'] in ('close', 'stop') for op in plan.get('ops', ()))
                    and not any(plan['cfg'][name].get('idle_time') for name in ('A', 'P'))
                    and all(any(msg['kind'] == 'SESS_TERM' for msg in obs.wire[name]) for name in ('A', 'P'))
                    and closed_seq is not None and not har.hang and not obs.wld.capped)
        if graceful:
            fin_ids = [bid for (_seq, bid) in tx_fin]
            for (_seq, tid) in tx_start:
                if fin_ids.count(tid) != 1:
                    out.append(('finished-once', 'send-finished-%d-times-at-graceful-end' % fin_ids.count(tid),
                                '%s started transfer %s, the session ended gracefully, and send_bundle_finished was emitted %d times for it' % (side, tid, fin_ids.count(tid))))
                    break
        progress = rx_progress(obs, side)
        peer_msgs = obs.wire[peer]
        popped_at = {}
        queued_at = {}
        for call in har.calls:
            (seq, _when, cside, member, args, ret) = call
            if cside != side:
                continue
            err = isinstance(ret, tuple) and len(ret) == 3 and ret[0] == 'error'
            if closed_seq is not None and seq > closed_seq:
                continue
            if member in ('send_bundle_data', 'send_bundle_file') and not err:
                queued_at[str(ret)] = seq
            elif member in ('recv_bundle_pop_data', 'recv_bundle_pop_file'):
                bid = str(args[0])
                announced = [fseq for (fseq, fbid) in rx_fin if fbid == bid and fseq < seq]
                if err and member == 'recv_bundle_pop_file' and str(args[1]).startswith('no-such-dir/'):
                    # injected storage fault: this pop may fail; the transfer is then still "not yet popped"
                    pass
                elif err:
                    if announced and bid not in popped_at:
                        out.append(('pop', 'pop-failed', '%s could not pop announced transfer %s: %s' % (side, bid, ret[1])))
                else:
                    if bid in popped_at:
                        out.append(('pop', 'popped-twice', '%s popped transfer %s twice' % (side, bid)))
                    if not announced:
                        out.append(('pop', 'popped-unannounced', '%s popped transfer %s before it was announced' % (side, bid)))
                    popped_at[bid] = seq
            elif member == 'get_connections' and not err:
                opened = set(item[4][0] for item in obs.signals[side] if item[3] == 'connection_opened' and item[0] < seq)
                gone = set(item[4][0] for item in obs.signals[side] if item[3] == 'connection_closed' and item[0] < seq)
                got = set(str(item) for item in ret)
                if got != opened - gone:
                    out.append(('connections', 'mismatch', '%s lists connections %s, announced and not closed are %s' % (side, sorted(got), sorted(opened - gone))))
            elif member == 'recv_bundle_get_queue' and not err:
                want = set(fbid for (fseq, fbid) in rx_fin if fseq < seq) - set(bid for (bid, pseq) in popped_at.items() if pseq < seq)
                got = set(str(item) for item in ret)
                if got != want:
                    out.append(('rx-queue', 'mismatch', '%s receive queue lists %s, model says %s' % (side, sorted(got), sorted(want))))
            elif member == 'send_bundle_get_queue' and not err:
                want = set(tid for (tid, qseq) in queued_at.items() if qseq < seq) - set(fbid for (fseq, fbid) in tx_fin if fseq < seq)
                got = set(str(item) for item in ret)
                if got != want:
                    out.append(('tx-queue', 'mismatch', '%s send queue lists %s, model says %s' % (side, sorted(got), sorted(want))))
            elif member == 'is_sess_idle' and not err:
                unfinished_tx = set(tid for (tid, qseq) in queued_at.items() if qseq < seq) - set(fbid for (fseq, fbid) in tx_fin if fseq < seq)
                rx_inprog = set(bid for (sseq, bid) in rx_start if sseq < seq) - set(fbid for (fseq, fbid) in rx_fin if fseq < seq)
                got_octets = 0
                for (pseq, _pw, total) in progress:
                    if pseq < seq:
                        got_octets = total
                partial = False
                for msg in peer_msgs:
                    if msg['offset'] < got_octets < msg['end']:
                        partial = True
                if got_octets > (peer_msgs[-1]['end'] if peer_msgs else 0):
                    partial = True
                busy = bool(unfinished_tx or rx_inprog or partial)
                if bool(ret) and busy:
                    why = 'tx-pending' if unfinished_tx else ('rx-in-progress' if rx_inprog else 'unprocessed-octets')
                    out.append(('idle', 'true-while-' + why, '%s reports idle although %s' % (side, why)))
                if final_idle_expected and call is har.final_idle.get(side) and not bool(ret):
                    out.append(('idle', 'never-idle-after-drain-' + stall_cause(obs), '%s still reports not idle after everything drained' % side))
    return out
