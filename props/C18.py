''' C18 - the D-Bus view of transfers is type-correct and consistent.
Engine E1 (TCPCL) and E6 (UDPCL). DESIGN 5/C18.
'''
from scenarios import tcpcl_pair
from props import tcpcl_common as tc

ID = 'C18'
LEVEL = 'exploration'
RULE = ('TCPCL: C01/C09 plan space with extra user calls (queue queries, idle queries, double pops, session parameter / state '
        'queries) at drawn times; every signal emission and method return is marshalled against its declared signature by the '
        'model of dbus-python (ref/dbus_sig.py); queue and idle answers are compared with a sequential model at every call. '
        'UDPCL: engine E6 runs with the same marshalling check and queue model. Non-trivial: at least one query answered while '
        'a transfer was queued, in progress or awaiting pop; distinct = distinct event-history digests.')
COMPONENTS = tc.COMPONENTS
PROBES = ('probe.query_during_transfer', 'probe.idle_true', 'probe.idle_false', 'probe.double_pop', 'wire.SESS_TERM')
ASSUMPTIONS = ['as C01', 'marshalling model agrees with dbus-python 1.3.2 on the argument shapes the agents produce (selftest fidelity)']
CHUNK = 10


def gen(ch, tier):
    prof = dict(min_one=True, backpressure=True, max_bundles=4, liveness=False, max_queries=10,
                big=32768, max_segments=200, allow_zero=ch.coin('allow0', 1, 8))
    mode = ch.weighted('mode', (5, 3, 1))
    if mode == 1:
        prof['terminate'] = True
        prof['term_kinds'] = ('terminate', 'terminate', 'shutdown')
    elif mode == 2:
        prof['timers'] = True
    plan = tcpcl_pair.gen_plan(ch, prof)
    # queries placed inside transfers
    for op in plan['ops']:
        if op['op'] in ('idle', 'txq', 'rxq', 'popdup') and ch.coin('q.trig', 1, 2):
            op.pop('t', None)
            op['after'] = ['tcp-send', ch.choice('q.side', ('A', 'P')), 3 + ch.pick('q.nth', 30)]
            op['delay'] = ch.choice('q.delay', (0, 30, 300))
    plan['ops'] = sorted((op for op in plan['ops'] if 't' in op), key=lambda op: op['t']) + [op for op in plan['ops'] if 't' not in op]
    return plan


def execute(plan, sched, verbose=False):
    return tcpcl_pair.run_plan(plan, sched, verbose)


def judge(run):
    obs = tc.Obs(run)
    run.obs = obs
    viols = tc.check_dbus_types(obs)
    viols += tc.check_dbus_consistency(obs, final_idle_expected=tc.plan_is_graceful_open(dict(run.plan, prof=dict(run.plan['prof'], liveness=True))))
    return viols


def describe(run):
    obs = getattr(run, 'obs', None) or tc.Obs(run)
    extra = {}
    for call in run.calls:
        if call[3] == 'is_sess_idle' and not isinstance(call[5], tuple):
            extra['probe.idle_true' if call[5] else 'probe.idle_false'] = 1
        if call[3] in ('send_bundle_get_queue', 'recv_bundle_get_queue') and isinstance(call[5], list) and call[5]:
            extra['probe.query_during_transfer'] = 1
    pops = {}
    for call in run.calls:
        if call[3] == 'recv_bundle_pop_data':
            pops[(call[2], call[4])] = pops.get((call[2], call[4]), 0) + 1
    if any(val > 1 for val in pops.values()):
        extra['probe.double_pop'] = 1
    info = tc.describe(obs, extra)
    info['nontrivial'] = bool(extra.get('probe.query_during_transfer') or extra.get('probe.idle_false'))
    return info
