''' C18 - the D-Bus view of transfers is type-correct and consistent.
Engine E1 (TCPCL) and E6 (UDPCL). DESIGN 5/C18.
'''
from scenarios import tcpcl_pair
from props import tcpcl_common as tc

ID = 'C18'
LEVEL = 'exploration'
RULE = ('TCPCL: C01/C09 plan space with extra user calls (queue queries, idle queries, double pops, session parameter / state '
        'queries) at drawn times; every signal emission and method return is marshalled against its declared signature by the '
        'model of dbus-python (ref/dbus_sig.py); queue and idle answers are compared with a sequential model at every call. '
        'TCPCL against a scripted peer (engine E2): user sends, peer acknowledgements and refusals (during a transfer and after its last '
        'segment), inbound transfers left open and completed later, queries and pops in drawn order, then everything is answered and '
        'popped and the idle indication must be true and a SESS_TERM exchange (started by the user or by the peer) must end in a closed contact. '
        'UDPCL: engine E6 runs with the same marshalling check and queue model. Non-trivial: at least one query answered while '
        'a transfer was queued, in progress or awaiting pop; distinct = distinct event-history digests.')
COMPONENTS = tc.COMPONENTS
PROBES = ('probe.query_during_transfer', 'probe.idle_true', 'probe.idle_false', 'probe.double_pop', 'wire.SESS_TERM', 'engine.tcpcl', 'engine.udpcl', 'engine.fullstack', 'engine.fullstack_tcp', 'engine.scripted', 'fault.session_restart', 'probe.second_session', 'probe.announced_length_differs',
          'probe.refuse_after_end', 'probe.refuse_in_progress', 'user.send_file', 'user.pop_file', 'fault.pop_file_unwritable', 'probe.foreign_sender_listen', 'probe.sender_listen_beyond_int32')
ASSUMPTIONS = ['as C01', 'marshalling model agrees with dbus-python 1.3.2 on the argument shapes the agents produce (selftest fidelity)']
CHUNK = 10


def _gen_scripted(ch):
    ''' Engine E2: the agent against a scripted peer, which (unlike the repo's own agent) also refuses transfers. '''
    cfg = dict(node_id='dtn://v/', keepalive_time=0, idle_time=0, segment_size_mru=10 * 1024**2,
               segment_size_tx_initial=ch.choice('txi', (16, 200, 104857)), tls_enable=False, enable_test=[])
    ops = []
    for _ in range(2 + ch.pick('nops', 14)):
        kind = ch.weighted('sop', (4, 5, 2, 4, 1))
        if kind == 0:
            ops.append(['send', ch.choice('slen', (0, 1, 40, 700, 3000))])
        elif kind == 1:
            ops.append(['answer', ch.choice('how', ('ack1', 'ack1', 'ackall', 'refuse', 'refuse')), ch.choice('rsn', (0, 1, 2, 3))])
        elif kind == 2:
            # the Transfer Length extension is the peer's word: any uint64, sometimes far from what the segments carry
            ops.append(['inbound', 1 + ch.pick('nseg', 3), ch.choice('seglen', (0, 1, 100)), ch.coin('whole', 3, 4),
                        ch.choice('announce', (None, None, None, 2**31 - 1, 2**31, 2**32 + 5, 2**63, 2**64 - 1))])
        elif kind == 3:
            ops.append(['query', ch.choice('q', ('is_sess_idle', 'is_sess_idle', 'send_bundle_get_queue', 'recv_bundle_get_queue'))])
        else:
            ops.append(['pop'])
    cap = ch.choice('cap', (1 << 30, 1 << 30, 200, 1000))
    if ch.coin('pipeline', 1, 4):
        # a short transfer completely written and a long one behind it that the bounded socket buffer stops half way (the peer
        # reads only between operations); the peer then answers the *earlier* transfer, a third one waits in the queue
        ops = ([['send', ch.choice('s1', (1, 40))], ['send', ch.choice('s2', (700, 3000))]] + ([['send', ch.choice('s3', (1, 40, 700))]] if ch.coin('third', 2, 3) else [])
               + [['answer', ch.choice('how1', ('refuse', 'refuse', 'ack1')), ch.choice('rsn1', (0, 1, 2, 3))]] + ops)
        cap = ch.choice('cap2', (200, 1000, 1000))
    return dict(scenario='tcpcl_scripted', role=ch.choice('role', ('passive', 'active')), cfg=cfg, chunk_size=10240,
                net=dict(tcp_capacity=cap, short_write_16=ch.choice('sshort', (0, 0, 4, 12))), peer_waits=ch.coin('peerwaits', 1, 2),
                term_under_load=ch.choice('tul', (0, 0, 700, 3000)),
                peer_mru=ch.choice('pmru', (1 << 20, 50, 300)), ops=ops, drain=ch.choice('drain', ('ack', 'refuse', 'mixed')),
                terminate=ch.choice('sterm', (None, 'peer', 'user')))


def _gen_fullstack_tcp(ch):
    ''' E5f over TCPCL: bp agents with the real TcpclAdaptor in front of real TCPCL agents; the adaptor opens sessions on
    demand, pops on the finished signal; a user of the TCPCL agent queries the contacts and may end a session in between. '''
    cfg = {}
    for side in ('A', 'B'):
        cfg[side] = dict(node_id='dtn://%s/' % side.lower(), keepalive_time=ch.choice(side + '.ka', (0, 0, 1)), idle_time=0,
                         segment_size_mru=ch.choice(side + '.mru', (10 * 1024**2, 64, 1000, 17)),
                         segment_size_tx_initial=ch.choice(side + '.txi', (104857, 33, 512)), tls_enable=False,
                         enable_test=['private_extensions'] if ch.coin(side + '.pext', 1, 6) else [])
    sends = sorted(([ch.choice('t', (0, 0, 1000, 5000, 200000, 1000000)) + 1000 * ch.pick('tt', 300), ch.choice('len', (0, 1, 30, 150, 400, 1200, 5000)), ix + 1,
                     ch.choice('src', ('A', 'A', 'B'))] for ix in range(1 + ch.pick('nsend', 8))), key=lambda item: item[0])
    queries = sorted(([1000 * ch.pick('qt', 2500), ch.choice('qside', ('A', 'B')),
                       ch.choice('qop', ('is_sess_idle', 'recv_bundle_get_queue', 'send_bundle_get_queue', 'get_session_state', 'get_session_parameters', 'get_connections'))]
                      for _ in range(ch.pick('nq', 10))), key=lambda item: item[0])
    restart = None
    if ch.coin('restart', 1, 3):
        restart = [1000 * ch.pick('rt', 1500), ch.choice('rside', ('A', 'B')), ch.choice('rhow', ('terminate', 'terminate', 'close'))]
    return dict(scenario='full_stack_tcp', cfg=cfg, chunk_size=ch.choice('chunk', (10240, 10240, 64, 1000)),
                net=dict(tcp_capacity=ch.choice('cap', (65536, 2048, 16384)), short_write_16=ch.choice('shortw', (0, 0, 4))),
                bp_mtu=ch.choice('bpmtu', (None, None, 300)), sends=sends, queries=queries, restart=restart)


def gen(ch, tier):
    if ch.coin('scripted', 1, 5):
        return _gen_scripted(ch)
    if ch.coin('fullstack.tcp', 1, 7):
        return _gen_fullstack_tcp(ch)
    if ch.coin('fullstack', 1, 6):
        sends = sorted(([ch.choice('t', (0, 0, 1000, 5000, 200000)) + 1000 * ch.pick('tt', 300), ch.choice('len', (1, 30, 150, 400, 1200)), ix + 1]
                        for ix in range(1 + ch.pick('nsend', 6))), key=lambda item: item[0])
        return dict(scenario='full_stack', mtu=ch.choice('mtu', (None, 100, 300, 1400)), bp_mtu=ch.choice('bpmtu', (None, None, 260)),
                    net=dict(dg_reorder_64=ch.choice('reo', (0, 16, 40)), dg_dup_64=ch.choice('dup', (0, 0, 8))), sends=sends)
    if ch.coin('udpcl', 1, 4):
        from props import C13
        plan = C13.gen(ch, tier)
        plan['scenario'] = 'udpcl_dbus'
        plan['queries'] = sorted(([1000 * ch.pick('qt', 5000), ch.choice('qside', ('U1', 'U2')), ch.choice('qop', ('rxq', 'pop', 'popdup', 'pop', 'popbadfile'))]
                                  for _ in range(2 + ch.pick('nq', 8))), key=lambda item: item[0])
        # a foreign peer announces that it listens (extension map: Sender Listen interval in ms as a CBOR uint, optional Sender Node ID
        # as text); every value reaches the polling_received signal
        plan['listens'] = sorted(([1000 * ch.pick('lt', 4000), ch.choice('lival', (1000, 60000, 2**31 - 1, 2**31, 2**32 + 5, 2**63, 0)),
                                   ch.choice('lnode', ('dtn://x/', 'ipn:9.1', '', None))] for _ in range(ch.weighted('nlisten', (2, 2, 1)))), key=lambda item: item[0])
        return plan
    prof = dict(min_one=True, backpressure=True, max_bundles=4, liveness=False, max_queries=10,
                big=32768, max_segments=200, allow_zero=ch.coin('allow0', 1, 8))
    mode = ch.weighted('mode', (5, 3, 1))
    if mode == 1:
        prof['terminate'] = True
        prof['term_kinds'] = ('terminate', 'terminate', 'shutdown')
    elif mode == 2:
        prof['timers'] = True
    plan = tcpcl_pair.gen_plan(ch, prof)
    if mode == 1:
        # the send queue is asked right after an endpoint entered the ending state (transfers that were cancelled must be gone from it)
        for side in ('A', 'P'):
            if ch.coin('q.ending', 2, 3):
                plan['ops'].append(dict(node=side, op='txq', after=['dbus-signal', side, 4, 'session_state_changed'], delay=ch.choice('q.ending.delay', (1, 30, 300))))
    # queries placed inside transfers
    for op in plan['ops']:
        if op['op'] in ('idle', 'txq', 'rxq', 'popdup') and ch.coin('q.trig', 1, 2):
            op.pop('t', None)
            op['after'] = ['tcp-send', ch.choice('q.side', ('A', 'P')), 3 + ch.pick('q.nth', 30)]
            op['delay'] = ch.choice('q.delay', (0, 30, 300))
    plan['ops'] = sorted((op for op in plan['ops'] if 't' in op), key=lambda op: op['t']) + [op for op in plan['ops'] if 't' not in op]
    return plan


def execute(plan, sched, verbose=False):
    if plan.get('scenario') == 'udpcl_dbus':
        return _execute_udpcl(plan, sched, verbose)
    if plan.get('scenario') == 'full_stack':
        return _execute_fullstack(plan, sched, verbose)
    if plan.get('scenario') == 'full_stack_tcp':
        return _execute_fullstack_tcp(plan, sched, verbose)
    if plan.get('scenario') == 'tcpcl_scripted':
        return _execute_scripted(plan, sched, verbose)
    return tcpcl_pair.run_plan(plan, sched, verbose)


class _URun:
    pass


def _execute_fullstack(plan, sched, verbose):
    ''' E5f: bp + real UdpclAdaptor + udpcl agents on two hosts; the BP side pops on the finished signal. '''
    from scenarios import full_stack, bp_net
    from props import bp_common as bc
    from bp.encoding import PrimaryBlock, CanonicalBlock
    from bp.util import BundleContainer
    har = full_stack.FullStackHarness(plan, sched, verbose)
    run = _URun()
    run.har = har
    run.wld = har.wld
    run.plan = plan
    run.viols = []
    run.stats = {'engine.fullstack': 1}
    wld = har.wld
    try:
        def do_send(item):
            (_when, plen, tag) = item
            ctr = BundleContainer()
            ctr.bundle.primary = PrimaryBlock(bundle_flags=0, destination='dtn://b/app', crc_type=2)
            ctr.bundle.blocks = [CanonicalBlock(type_code=1, block_num=1, crc_type=2, btsd=bc.body(tag, plen))]
            har.send('bpA', ctr)

        for item in plan['sends']:
            wld.at(item[0], do_send, item)
        har.run_until(6 * full_stack.SEC)
        har.settle(window_us=3 * full_stack.SEC)
        for evt in wld.hist:
            if evt[3] == 'dbus-marshal-error':
                run.viols.append(('dbus-type', 'fullstack-%s:%s' % (evt[4], evt[6]), '%s %s does not conform to signature %r: args %r (%s)' % (evt[4], evt[6], evt[7], evt[8], evt[9])))
                return run
            if evt[3] == 'dbus-error' and evt[6] in ('recv_bundle_pop_data', 'send_bundle_data'):
                run.viols.append(('adaptor', 'call-failed-%s' % evt[6], 'BP-side adaptor call %s failed: %s %s' % (evt[6], evt[7], evt[8])))
                return run
            if evt[3] == 'escaped-exception':
                run.viols.append(('adaptor', 'escaped-%s@%s' % (evt[4], evt[5]), '%s escaped from %s in node %s' % (evt[4], evt[5], evt[2])))
                return run
        want = {}
        expect = {}
        for (_when, plen, tag) in plan['sends']:
            want[bc.body(tag, plen)] = 0
            expect[bc.body(tag, plen)] = expect.get(bc.body(tag, plen), 0) + 1
        for rec in har.delivered['bpB']:
            if rec['payload'] not in want:
                run.viols.append(('end-to-end', 'foreign-payload', 'the destination delivered %d octets nobody sent' % len(rec['payload'])))
                return run
            want[rec['payload']] += 1
        for (body, count) in want.items():
            if count != expect[body]:
                run.viols.append(('end-to-end', 'delivered-%d-times' % count, 'a %d-octet bundle sourced at A reached the application at B %d times' % (len(body), count)))
                return run
        left = list(har.cl['B']._rx_queue)
        if left:
            run.viols.append(('adaptor', 'not-popped', 'UDPCL agent at B still queues transfers %r: the BP adaptor did not pop them' % left))
        run.stats['probe.query_during_transfer'] = 1
    finally:
        bp_net.CURRENT = None
    return run


def _execute_fullstack_tcp(plan, sched, verbose):
    ''' E5f over TCPCL (DESIGN 12.7): what the BP-side adaptor sees of the TCPCL agents. '''
    from scenarios import full_stack, bp_net
    from props import bp_common as bc
    from bp.encoding import PrimaryBlock, CanonicalBlock
    from bp.util import BundleContainer
    har = full_stack.TcpFullStackHarness(plan, sched, verbose)
    run = _URun()
    run.har = har
    run.wld = har.wld
    run.plan = plan
    run.viols = []
    run.stats = {'engine.fullstack_tcp': 1}
    wld = har.wld
    restart = plan.get('restart')
    answers = []
    try:
        def do_send(item):
            (_when, plen, tag, src) = item
            ctr = BundleContainer()
            ctr.bundle.primary = PrimaryBlock(bundle_flags=0, destination='dtn://%s/app' % ('b' if src == 'A' else 'a'), crc_type=2)
            ctr.bundle.blocks = [CanonicalBlock(type_code=1, block_num=1, crc_type=2, btsd=bc.body(tag, plen))]
            har.send('bp' + src, ctr)

        def open_contacts(side):
            return [path for path in har.opened[side] if path not in har.closed[side]]

        def do_query(item):
            (_when, side, member) = item
            if member == 'get_connections':
                ret = har.user_call(side, full_stack.TCPCL_AGENT_PATH, member)
                if not (isinstance(ret, tuple) and ret and ret[0] == 'error'):
                    answers.append((wld.seq, side, None, member, sorted(str(path) for path in ret), sorted(open_contacts(side))))
                return
            for path in open_contacts(side):
                ret = har.user_call(side, path, member)
                answers.append((wld.seq, side, path, member, ret, None))

        def do_restart(item):
            (_when, side, how) = item
            for path in open_contacts(side)[:1]:
                run.stats['fault.session_restart'] = 1
                if how == 'terminate':
                    har.user_call(side, path, 'terminate', 3)
                else:
                    har.user_call(side, path, 'close')

        for item in plan['sends']:
            wld.at(item[0], do_send, item)
        for item in plan['queries']:
            wld.at(item[0], do_query, item)
        if restart:
            wld.at(restart[0], do_restart, restart)
        har.run_until(8 * full_stack.SEC)
        har.settle(window_us=3 * full_stack.SEC)
        for evt in wld.hist:
            if evt[3] == 'dbus-marshal-error':
                run.viols.append(('dbus-type', 'fullstack-tcp-%s:%s' % (evt[4], evt[6]), '%s %s does not conform to signature %r: args %r (%s)' % (evt[4], evt[6], evt[7], evt[8], evt[9])))
                return run
            if evt[3] == 'escaped-exception':
                # not part of the statement (C17 owns escaping exceptions, for hostile peers): counted, and judged by its consequences below
                run.stats['probe.cl_exception' if str(evt[2]).startswith('cl') else 'probe.adaptor_exception'] = 1
            if evt[3] == 'dbus-error' and evt[6] in ('recv_bundle_pop_data', 'send_bundle_data') and not restart:
                run.viols.append(('adaptor', 'tcp-call-failed-%s' % evt[6], 'BP-side adaptor call %s failed: %s %s' % (evt[6], evt[7], evt[8])))
                return run
        for (seq, side, path, member, ret, want) in answers:
            if member == 'get_connections' and ret != want:
                run.viols.append(('connections', 'fullstack-tcp-mismatch', 'get_connections of %s listed %s, contacts announced and not closed are %s' % (side, ret, want)))
                return run
        # every transfer the agents announced as received was popped by the adaptor: the queues are empty, and the sessions are idle
        for side in ('A', 'B'):
            for path in open_contacts(side):
                left = har.user_call(side, path, 'recv_bundle_get_queue')
                if isinstance(left, tuple) and left and left[0] == 'error':
                    continue
                if list(left):
                    run.viols.append(('adaptor', 'tcp-not-popped', 'TCPCL contact %s at %s still lists received transfers %r after the adaptor was signalled' % (path, side, [str(x) for x in left])))
                    return run
                pend = har.user_call(side, path, 'send_bundle_get_queue')
                idle = har.user_call(side, path, 'is_sess_idle')
                for _retry in range(6):
                    # a keepalive may be on its way out at this very instant; the indication has to become true, not be true at every instant
                    if isinstance(idle, tuple) or idle or har.hang or wld.capped:
                        break
                    har.run_until(wld.now + 130000)
                    idle = har.user_call(side, path, 'is_sess_idle')
                state = har.user_call(side, path, 'get_session_state')
                if state == 'established' and not (isinstance(pend, tuple) and pend and pend[0] == 'error') and not list(pend) and not (isinstance(idle, tuple) or idle) and not har.hang and not wld.capped:
                    run.viols.append(('idle', 'fullstack-tcp-never-idle', 'contact %s at %s is established with empty queues after everything drained, but is_sess_idle says %r' % (path, side, idle)))
                    return run
                if not isinstance(idle, tuple) and idle:
                    run.stats['probe.idle_true'] = 1
        sent = {}
        for (_when, plen, tag, src) in plan['sends']:
            sent[(src, bc.body(tag, plen))] = sent.get((src, bc.body(tag, plen)), 0) + 1
        for (src, dst) in (('A', 'bpB'), ('B', 'bpA')):
            got = {}
            for rec in har.delivered[dst]:
                if (src, rec['payload']) not in sent:
                    run.viols.append(('end-to-end', 'tcp-foreign-payload', 'the application at %s was handed %d octets nobody sent' % (dst, len(rec['payload']))))
                    return run
                got[rec['payload']] = got.get(rec['payload'], 0) + 1
            for ((ssrc, body), count) in sent.items():
                if ssrc != src:
                    continue
                have = got.get(body, 0)
                if have > count or (have < count and not restart and not har.hang and not wld.capped):
                    run.viols.append(('end-to-end', 'tcp-delivered-%d-of-%d' % (have, count), 'a %d-octet bundle sourced at %s reached the application at %s %d times (sent %d)' % (len(body), src, dst, have, count)))
                    return run
        run.stats['probe.query_during_transfer'] = 1 if any(member in ('recv_bundle_get_queue', 'send_bundle_get_queue') and not isinstance(ret, tuple) and list(ret)
                                                            for (_s, _side, _p, member, ret, _w) in answers) else 0
        if len(har.opened['A']) > 1:
            run.stats['probe.second_session'] = 1
    finally:
        bp_net.CURRENT = None
    return run


def _execute_scripted(plan, sched, verbose):
    from scenarios import tcpcl_peer
    from ref import rfc9174
    har = tcpcl_peer.PeerHarness(plan, sched, verbose)
    run = _URun()
    run.har = har
    run.wld = har.wld
    run.plan = plan
    run.viols = []
    run.stats = {'engine.scripted': 1}
    try:
        _drive_scripted(run, plan, har, rfc9174)
    finally:
        har.restore()
    return run


def _drive_scripted(run, plan, har, rfc9174):
    stats = run.stats
    state = dict(answered=0, cum={}, refused=set(), final_acked=set(), ended=set(), in_tid=1, partial=None)

    def put(msg):
        if not har.victim_closed():
            har.deliver(rfc9174.encode(msg))
            har.settle()

    put(dict(kind='CONTACT', flags=0))
    put(dict(kind='SESS_INIT', keepalive=0, segment_mru=plan['peer_mru'], nodeid=b'dtn://x/', ext=[]))
    hdl = har.victim_state()
    if har.contact is None or hdl is None or not hdl._in_sess:
        stats['scripted.no_session'] = 1
        return

    def segments():
        return [msg for msg in har.vmsgs if msg['kind'] == 'XFER_SEGMENT']

    def answer(how, reason, limit):
        done = 0
        while not har.victim_closed():
            segs = segments()
            if state['answered'] >= len(segs) or done >= limit:
                break
            seg = segs[state['answered']]
            state['answered'] += 1
            tid = seg['transfer_id']
            state['cum'][tid] = state['cum'].get(tid, 0) + len(seg['data'])
            if seg['flags'] & rfc9174.FLAG_END:
                state['ended'].add(tid)
            if tid in state['refused']:
                continue
            done += 1
            if how == 'refuse':
                state['refused'].add(tid)
                late = tid in state['ended'] or any(later['transfer_id'] == tid and later['flags'] & rfc9174.FLAG_END for later in segs)
                stats['probe.refuse_after_end' if late else 'probe.refuse_in_progress'] = 1
                put(dict(kind='XFER_REFUSE', reason=reason, transfer_id=tid))
            else:
                if seg['flags'] & rfc9174.FLAG_END:
                    state['final_acked'].add(tid)
                put(dict(kind='XFER_ACK', flags=seg['flags'], transfer_id=tid, length=state['cum'][tid]))

    def inbound(nseg, seglen, whole, announce=None):
        if state['partial'] is not None:
            finish_inbound()
        tid = state['in_tid']
        state['in_tid'] += 1
        total = nseg * seglen
        last = nseg if whole else max(1, nseg - 1)
        for six in range(last):
            flags = (rfc9174.FLAG_START if six == 0 else 0) | (rfc9174.FLAG_END if six == nseg - 1 else 0)
            ext = [rfc9174.xfer_length_ext(total if announce is None else announce)] if six == 0 else []
            if announce is not None:
                stats['probe.announced_length_differs'] = 1
            put(dict(kind='XFER_SEGMENT', flags=flags, transfer_id=tid, ext=ext, data=bytes([0x41 + tid % 20]) * seglen))
        if last < nseg or (not whole and nseg == 1):
            state['partial'] = (tid, last, nseg, seglen)
        if not whole and nseg == 1:
            # a lone START|END segment cannot be left open: nothing partial after all
            state['partial'] = None

    def finish_inbound():
        (tid, nxt, nseg, seglen) = state['partial']
        state['partial'] = None
        for six in range(nxt, nseg):
            flags = rfc9174.FLAG_END if six == nseg - 1 else 0
            put(dict(kind='XFER_SEGMENT', flags=flags, transfer_id=tid, ext=[], data=bytes([0x41 + tid % 20]) * seglen))

    for op in plan['ops']:
        if har.victim_closed() or har.wld.capped or har.hang:
            break
        if op[0] == 'send':
            har.user_send(bytes([0x61 + len(har.queued) % 20]) * op[1])
            har.settle()
        elif op[0] == 'answer':
            answer(op[1], op[2], 1 if op[1] != 'ackall' else 10**6)
        elif op[0] == 'inbound':
            inbound(op[1], op[2], op[3], op[4] if len(op) > 4 else None)
        elif op[0] == 'query':
            har.call(har.contact, op[1])
        elif op[0] == 'pop':
            ret = har.call(har.contact, 'recv_bundle_get_queue')
            if isinstance(ret, list) and ret:
                har.call(har.contact, 'recv_bundle_pop_data', ret[0])
    # drain: complete what is open, answer everything, pop everything
    if state['partial'] is not None:
        finish_inbound()
    if plan.get('term_under_load') and plan['terminate'] == 'peer' and not har.victim_closed() and not har.wld.capped and not har.hang:
        # the peer ends the session at a moment when the agent's output is held back by a full socket buffer: a transfer has just
        # been queued and the peer has not read yet; the reply waits behind the segments, everything is acknowledged afterwards
        har.user_send(bytes([0x61 + len(har.queued) % 20]) * plan['term_under_load'])
        har.deliver(rfc9174.encode(dict(kind='SESS_TERM', flags=0, reason=0)))
        har.settle()
        state['early_term'] = True
        stats['probe.peer_term_under_load'] = 1
        stats['wire.SESS_TERM'] = 1
    rounds = 0
    for _pass in range(3000):
        octets = har.from_v.total
        while not har.victim_closed() and not har.wld.capped and not har.hang and rounds < 5000:
            rounds += 1
            if state['answered'] >= len(segments()):
                break
            how = plan['drain']
            if how == 'mixed':
                how = 'refuse' if rounds % 2 else 'ack'
            answer('ack1' if how == 'ack' else 'refuse', 2, 1)
        # with a bounded socket buffer the agent produces more once the peer has read
        har.settle()
        if state['answered'] >= len(segments()) and har.from_v.total == octets:
            break
    har.user_pop_all()
    har.settle()
    run.final_idle = None
    if state.get('early_term') and state['answered'] >= len(segments()) and not har.wld.capped and not har.hang:
        if not har.victim_closed():
            if not [msg for msg in har.vmsgs if msg['kind'] == 'SESS_TERM']:
                run.viols.append(('idle', 'no-sess-term-reply-after-drain', 'peer SESS_TERM during a transfer got no reply although everything was acknowledged'))
            elif plan.get('peer_waits'):
                har.settle_all()
                stats['probe.peer_waits_for_close'] = 1
                if not har.xsock.rx_eof and not har.closed:
                    run.viols.append(('idle', 'not-closed-by-itself', 'SESS_TERM received during a transfer and answered, every segment acknowledged, the peer waits, and the agent does not close'))
            with har.wld.as_node(har.xnode):
                har.xsock.close()
            har.settle()
            if not har.closed and not run.viols:
                run.viols.append(('idle', 'not-closed-after-drain', 'SESS_TERM exchanged, peer closed, nothing outstanding, but the agent did not close'))
    if state['answered'] < len(segments()):
        stats['scripted.not_drained'] = 1
    elif not har.victim_closed() and not har.wld.capped and not har.hang:
        har.call(har.contact, 'send_bundle_get_queue')
        har.call(har.contact, 'is_sess_idle')
        run.final_idle = har.calls[-1]
        if plan['terminate'] == 'peer':
            # graceful end requested by the peer: the agent replies; the peer, having sent and received SESS_TERM, closes; the agent follows
            put(dict(kind='SESS_TERM', flags=0, reason=0))
            replies = [msg for msg in har.vmsgs if msg['kind'] == 'SESS_TERM']
            if not replies:
                run.viols.append(('idle', 'no-sess-term-reply-after-drain', 'peer SESS_TERM after everything drained got no reply'))
            else:
                if plan.get('peer_waits'):
                    # the peer, having sent and received SESS_TERM, is in no hurry: the agent has nothing outstanding and closes by itself
                    har.settle_all()
                    stats['probe.peer_waits_for_close'] = 1
                    if not har.xsock.rx_eof and not har.closed:
                        run.viols.append(('idle', 'not-closed-by-itself', 'SESS_TERM received and answered with nothing outstanding, the peer waits, and the agent does not close'))
                with har.wld.as_node(har.xnode):
                    har.xsock.close()
                har.settle()
                if not har.closed:
                    run.viols.append(('idle', 'not-closed-after-drain', 'SESS_TERM exchanged, peer closed, nothing outstanding, but the agent did not close'))
            stats['wire.SESS_TERM'] = 1
        elif plan['terminate'] == 'user':
            # graceful end requested by the user: once the peer's reply is in and nothing is outstanding the agent closes on its own
            har.call(har.contact, 'terminate', 0)
            har.settle()
            put(dict(kind='SESS_TERM', flags=1, reason=0))
            if not har.xsock.rx_eof and not har.closed:
                run.viols.append(('idle', 'not-closed-after-drain', 'SESS_TERM sent and answered with nothing outstanding but the agent did not close'))
            stats['wire.SESS_TERM'] = 1
    _judge_scripted(run, har, state)


def _judge_scripted(run, har, state):
    viols = run.viols
    sigs = {}
    for evt in har.wld.hist:
        if evt[3] == 'dbus-marshal-error':
            viols.append(('dbus-type', '%s:%s' % (evt[4], evt[6]), '%s %s does not conform to signature %r: args %r (%s)' % (evt[4], evt[6], evt[7], evt[8], evt[9])))
        elif evt[3] == 'dbus-signal' and evt[4] == har.contact:
            sigs.setdefault(evt[5], []).append((evt[0], evt[7]))
        elif evt[3] == 'escaped-exception':
            run.stats['probe.escaped_exception'] = 1
    tx_fin = [(seq, str(args[0])) for (seq, args) in sigs.get('send_bundle_finished', [])]
    rx_fin = [(seq, str(args[0])) for (seq, args) in sigs.get('recv_bundle_finished', [])]
    rx_start = [(seq, str(args[0])) for (seq, args) in sigs.get('recv_bundle_started', [])]
    for (name, fins) in (('recv', rx_fin), ('send', tx_fin)):
        seen = set()
        for (_seq, bid) in fins:
            if bid in seen:
                viols.append(('finished-once', name + '-finished-twice', 'agent emitted %s_bundle_finished twice for %s' % (name, bid)))
            seen.add(bid)
    queued_at = {}
    popped_at = {}
    for call in har.calls:
        (seq, _when, _side, member, args, ret) = call
        err = isinstance(ret, tuple) and len(ret) == 3 and ret[0] == 'error'
        if member == 'send_bundle_data' and not err:
            queued_at[str(ret)] = seq
        elif member == 'recv_bundle_pop_data':
            bid = str(args[0])
            announced = [fseq for (fseq, fbid) in rx_fin if fbid == bid and fseq < seq]
            if err and announced and bid not in popped_at:
                viols.append(('pop', 'pop-failed', 'could not pop announced transfer %s: %s' % (bid, ret[1])))
            elif not err:
                if bid in popped_at:
                    viols.append(('pop', 'popped-twice', 'popped transfer %s twice' % bid))
                if not announced:
                    viols.append(('pop', 'popped-unannounced', 'popped transfer %s before it was announced' % bid))
                popped_at[bid] = seq
        elif member == 'recv_bundle_get_queue' and not err:
            want = set(fbid for (fseq, fbid) in rx_fin if fseq < seq) - set(bid for (bid, pseq) in popped_at.items() if pseq < seq)
            got = set(str(item) for item in ret)
            if got != want:
                viols.append(('rx-queue', 'mismatch', 'receive queue lists %s, model says %s' % (sorted(got), sorted(want))))
        elif member == 'send_bundle_get_queue' and not err:
            want = set(tid for (tid, qseq) in queued_at.items() if qseq < seq) - set(fbid for (fseq, fbid) in tx_fin if fseq < seq)
            got = set(str(item) for item in ret)
            if got != want:
                viols.append(('tx-queue', 'mismatch', 'send queue lists %s, model says %s' % (sorted(got), sorted(want))))
        elif member == 'is_sess_idle' and not err:
            unfinished = set(tid for (tid, qseq) in queued_at.items() if qseq < seq) - set(fbid for (fseq, fbid) in tx_fin if fseq < seq)
            rx_inprog = set(bid for (sseq, bid) in rx_start if sseq < seq) - set(fbid for (fseq, fbid) in rx_fin if fseq < seq)
            run.stats['probe.idle_true' if ret else 'probe.idle_false'] = 1
            if unfinished or rx_inprog:
                run.stats['probe.query_during_transfer'] = 1
            if bool(ret) and (unfinished or rx_inprog):
                viols.append(('idle', 'true-while-' + ('tx-pending' if unfinished else 'rx-in-progress'), 'agent reports idle although a transfer is unfinished'))
            if call is run.final_idle and not bool(ret):
                viols.append(('idle', 'never-idle-after-drain-scripted', 'every transfer was acknowledged or refused and every received one popped, still not idle'))
    # every transfer whose final segment was acknowledged, or which was refused, got exactly one finished signal
    fin_ids = set(bid for (_seq, bid) in tx_fin)
    for tid in sorted(state['final_acked'] | state['refused']):
        if str(tid) not in fin_ids and not har.victim_closed():
            viols.append(('finished-once', 'send-never-finished', 'transfer %s was %s by the peer but no send_bundle_finished was emitted' % (
                tid, 'refused' if tid in state['refused'] else 'fully acknowledged')))


def _execute_udpcl(plan, sched, verbose):
    from scenarios import dgram_pair
    from props import C13
    har = dgram_pair.DgramHarness(plan, sched, verbose)
    run = _URun()
    run.har = har
    run.wld = har.wld
    run.plan = plan
    run.viols = []
    run.stats = {}
    wld = har.wld

    def do_send(item):
        dst = 'U2' if item['src'] == 'U1' else 'U1'
        har.user_send(item['src'], C13.bundle_bytes(item['tag'], item['plen']), {'address': dgram_pair.UDP_ADDR[dst], 'port': 4556})

    def do_query(item):
        (_when, side, qop) = item
        ret = har.call(side, 'recv_bundle_get_queue')
        if qop != 'rxq' and isinstance(ret, list) and ret:
            bid = ret[0]
            if qop == 'popbadfile':
                # storage fault: the file cannot be created; the pop may fail, the transfer then has to stay queued
                run.stats['fault.pop_file_unwritable'] = 1
                res = har.call(side, 'recv_bundle_pop_file', bid, 'no-such-dir/u_%s.bin' % bid)
                if not (isinstance(res, tuple) and len(res) == 3 and res[0] == 'error'):
                    return
                har.call(side, 'recv_bundle_get_queue')
            har.call(side, 'recv_bundle_pop_data', bid)
            if qop == 'popdup':
                har.call(side, 'recv_bundle_pop_data', bid)

    for item in plan['sends']:
        wld.at(item['t'], do_send, item)
    def do_listen(item):
        import cbor2
        (_when, interval, node_id) = item
        extmap = {3: interval}
        if node_id is not None:
            extmap[4] = node_id
        run.stats['probe.foreign_sender_listen'] = 1
        if interval >= 2**31:
            run.stats['probe.sender_listen_beyond_int32'] = 1
        har.peer_send(cbor2.dumps(extmap), 'U2')

    for item in plan['queries']:
        wld.at(item[0], do_query, item)
    for item in plan.get('listens', ()):
        wld.at(item[0], do_listen, item)
    har.run_until(5 * dgram_pair.SEC)
    har.settle()
    for side in ('U1', 'U2'):
        har.call(side, 'recv_bundle_get_queue')
    _judge_udpcl(run, har)
    return run


def _judge_udpcl(run, har):
    wld = har.wld
    for evt in wld.hist:
        if evt[3] == 'dbus-marshal-error':
            run.viols.append(('dbus-type', 'udpcl-%s:%s' % (evt[4], evt[6]), 'UDPCL %s %s does not conform to signature %r: args %r (%s)' % (evt[4], evt[6], evt[7], evt[8], evt[9])))
            return
    for side in ('U1', 'U2'):
        announced = [(evt[0], evt[7][0], evt[7][1]) for evt in wld.hist if evt[3] == 'dbus-signal' and evt[2] == side and evt[5] == 'recv_bundle_finished']
        popped = {}
        for call in har.calls:
            (seq, _when, cside, member, args, ret) = call
            if cside != side:
                continue
            err = isinstance(ret, tuple) and len(ret) == 3 and ret[0] == 'error'
            if member == 'recv_bundle_get_queue' and not err:
                want = set(bid for (aseq, bid, _len) in announced if aseq < seq) - set(bid for (bid, pseq) in popped.items() if pseq < seq)
                got = set(str(item) for item in ret)
                run.stats['probe.query_during_transfer'] = run.stats.get('probe.query_during_transfer', 0) + (1 if got else 0)
                if got != want:
                    run.viols.append(('rx-queue', 'udpcl-mismatch', 'UDPCL %s receive queue lists %s, model says %s' % (side, sorted(got), sorted(want))))
                    return
            elif member == 'recv_bundle_pop_file':
                if not err:
                    popped[str(args[0])] = seq
            elif member == 'recv_bundle_pop_data':
                bid = str(args[0])
                known = [length for (aseq, abid, length) in announced if abid == bid and aseq < seq]
                if err:
                    if known and bid not in popped:
                        run.viols.append(('pop', 'udpcl-pop-failed', 'UDPCL %s could not pop announced transfer %s' % (side, bid)))
                        return
                    if bid in popped:
                        run.stats['probe.double_pop'] = 1
                else:
                    if bid in popped:
                        run.viols.append(('pop', 'udpcl-popped-twice', 'UDPCL %s popped transfer %s twice' % (side, bid)))
                        return
                    if known and len(ret) != known[0]:
                        run.viols.append(('pop', 'udpcl-length', 'UDPCL %s popped %d octets, announced %d' % (side, len(ret), known[0])))
                        return
                    popped[bid] = seq
        for tid in set(evt[7][0] for evt in wld.hist if evt[3] == 'dbus-signal' and evt[2] == side and evt[5] == 'send_bundle_started'):
            count = len([1 for evt in wld.hist if evt[3] == 'dbus-signal' and evt[2] == side and evt[5] == 'send_bundle_finished' and evt[7][0] == tid])
            if count > 1:
                run.viols.append(('finished-once', 'udpcl-send-finished-twice', 'UDPCL %s emitted send_bundle_finished %d times for %s' % (side, count, tid)))
                return


def judge(run):
    if isinstance(run, _URun):
        return run.viols
    obs = tc.Obs(run)
    run.obs = obs
    viols = tc.check_dbus_types(obs)
    viols += tc.check_dbus_consistency(obs, final_idle_expected=tc.plan_is_graceful_open(dict(run.plan, prof=dict(run.plan['prof'], liveness=True))))
    return viols


def describe(run):
    if isinstance(run, _URun):
        counters = dict(run.wld.counters)
        counters.update(run.stats)
        if run.plan.get('scenario') == 'tcpcl_scripted':
            return dict(nontrivial=bool(run.stats.get('probe.query_during_transfer') or run.stats.get('probe.refuse_after_end')), key=run.wld.digest(),
                        sim_us=run.wld.now, steps=run.wld.steps, capped=run.wld.capped, counters=counters,
                        sample=dict(engine='scripted', role=run.plan['role'], peer_mru=run.plan['peer_mru'], ops=run.plan['ops'][:12], drain=run.plan['drain']))
        if run.plan.get('scenario') == 'full_stack_tcp':
            return dict(nontrivial=True, key=run.wld.digest(), sim_us=run.wld.now, steps=run.wld.steps, capped=run.wld.capped, counters=counters,
                        sample=dict(engine='fullstack_tcp', sends=run.plan['sends'], queries=run.plan['queries'][:6], restart=run.plan['restart'], net=run.plan['net']))
        if run.plan.get('scenario') == 'full_stack':
            return dict(nontrivial=True, key=run.wld.digest(), sim_us=run.wld.now, steps=run.wld.steps, capped=run.wld.capped, counters=counters,
                        sample=dict(engine='fullstack', mtu=run.plan['mtu'], bp_mtu=run.plan['bp_mtu'], sends=run.plan['sends'], net=run.plan['net']))
        counters['engine.udpcl'] = 1
        return dict(nontrivial=bool(run.stats.get('probe.query_during_transfer')), key=run.wld.digest(), sim_us=run.wld.now, steps=run.wld.steps,
                    capped=run.wld.capped, counters=counters, sample=dict(engine='udpcl', mtu=run.plan['mtu'], queries=run.plan['queries'][:8]))
    obs = getattr(run, 'obs', None) or tc.Obs(run)
    extra = {'engine.tcpcl': 1}
    for call in run.calls:
        if call[3] == 'is_sess_idle' and not isinstance(call[5], tuple):
            extra['probe.idle_true' if call[5] else 'probe.idle_false'] = 1
        if call[3] in ('send_bundle_get_queue', 'recv_bundle_get_queue') and isinstance(call[5], list) and call[5]:
            extra['probe.query_during_transfer'] = 1
    pops = {}
    for call in run.calls:
        if call[3] == 'recv_bundle_pop_data':
            pops[(call[2], call[4])] = pops.get((call[2], call[4]), 0) + 1
    if any(val > 1 for val in pops.values()):
        extra['probe.double_pop'] = 1
    info = tc.describe(obs, extra)
    info['nontrivial'] = bool(extra.get('probe.query_during_transfer') or extra.get('probe.idle_false'))
    return info
