''' C18 - the D-Bus view of transfers is type-correct and consistent.
Engine E1 (TCPCL) and E6 (UDPCL). DESIGN 5/C18.
'''
from scenarios import tcpcl_pair
from props import tcpcl_common as tc

ID = 'C18'
LEVEL = 'exploration'
RULE = ('TCPCL: C01/C09 plan space with extra user calls (queue queries, idle queries, double pops, session parameter / state '
        'queries) at drawn times; every signal emission and method return is marshalled against its declared signature by the '
        'model of dbus-python (ref/dbus_sig.py); queue and idle answers are compared with a sequential model at every call. '
        'UDPCL: engine E6 runs with the same marshalling check and queue model. Non-trivial: at least one query answered while '
        'a transfer was queued, in progress or awaiting pop; distinct = distinct event-history digests.')
COMPONENTS = tc.COMPONENTS
PROBES = ('probe.query_during_transfer', 'probe.idle_true', 'probe.idle_false', 'probe.double_pop', 'wire.SESS_TERM', 'engine.tcpcl', 'engine.udpcl', 'engine.fullstack')
ASSUMPTIONS = ['as C01', 'marshalling model agrees with dbus-python 1.3.2 on the argument shapes the agents produce (selftest fidelity)']
CHUNK = 10


def gen(ch, tier):
    if ch.coin('fullstack', 1, 6):
        sends = sorted(([ch.choice('t', (0, 0, 1000, 5000, 200000)) + 1000 * ch.pick('tt', 300), ch.choice('len', (1, 30, 150, 400, 1200)), ix + 1]
                        for ix in range(1 + ch.pick('nsend', 6))), key=lambda item: item[0])
        return dict(scenario='full_stack', mtu=ch.choice('mtu', (None, 100, 300, 1400)), bp_mtu=ch.choice('bpmtu', (None, None, 260)),
                    net=dict(dg_reorder_64=ch.choice('reo', (0, 16, 40)), dg_dup_64=ch.choice('dup', (0, 0, 8))), sends=sends)
    if ch.coin('udpcl', 1, 4):
        from props import C13
        plan = C13.gen(ch, tier)
        plan['scenario'] = 'udpcl_dbus'
        plan['queries'] = sorted(([1000 * ch.pick('qt', 5000), ch.choice('qside', ('U1', 'U2')), ch.choice('qop', ('rxq', 'pop', 'popdup'))]
                                  for _ in range(2 + ch.pick('nq', 8))), key=lambda item: item[0])
        return plan
    prof = dict(min_one=True, backpressure=True, max_bundles=4, liveness=False, max_queries=10,
                big=32768, max_segments=200, allow_zero=ch.coin('allow0', 1, 8))
    mode = ch.weighted('mode', (5, 3, 1))
    if mode == 1:
        prof['terminate'] = True
        prof['term_kinds'] = ('terminate', 'terminate', 'shutdown')
    elif mode == 2:
        prof['timers'] = True
    plan = tcpcl_pair.gen_plan(ch, prof)
    # queries placed inside transfers
    for op in plan['ops']:
        if op['op'] in ('idle', 'txq', 'rxq', 'popdup') and ch.coin('q.trig', 1, 2):
            op.pop('t', None)
            op['after'] = ['tcp-send', ch.choice('q.side', ('A', 'P')), 3 + ch.pick('q.nth', 30)]
            op['delay'] = ch.choice('q.delay', (0, 30, 300))
    plan['ops'] = sorted((op for op in plan['ops'] if 't' in op), key=lambda op: op['t']) + [op for op in plan['ops'] if 't' not in op]
    return plan


def execute(plan, sched, verbose=False):
    if plan.get('scenario') == 'udpcl_dbus':
        return _execute_udpcl(plan, sched, verbose)
    if plan.get('scenario') == 'full_stack':
        return _execute_fullstack(plan, sched, verbose)
    return tcpcl_pair.run_plan(plan, sched, verbose)


class _URun:
    pass


def _execute_fullstack(plan, sched, verbose):
    ''' E5f: bp + real UdpclAdaptor + udpcl agents on two hosts; the BP side pops on the finished signal. '''
    from scenarios import full_stack, bp_net
    from props import bp_common as bc
    from bp.encoding import PrimaryBlock, CanonicalBlock
    from bp.util import BundleContainer
    har = full_stack.FullStackHarness(plan, sched, verbose)
    run = _URun()
    run.har = har
    run.wld = har.wld
    run.plan = plan
    run.viols = []
    run.stats = {'engine.fullstack': 1}
    wld = har.wld
    try:
        def do_send(item):
            (_when, plen, tag) = item
            ctr = BundleContainer()
            ctr.bundle.primary = PrimaryBlock(bundle_flags=0, destination='dtn://b/app', crc_type=2)
            ctr.bundle.blocks = [CanonicalBlock(type_code=1, block_num=1, crc_type=2, btsd=bc.body(tag, plen))]
            har.send('bpA', ctr)

        for item in plan['sends']:
            wld.at(item[0], do_send, item)
        har.run_until(6 * full_stack.SEC)
        har.settle(window_us=3 * full_stack.SEC)
        for evt in wld.hist:
            if evt[3] == 'dbus-marshal-error':
                run.viols.append(('dbus-type', 'fullstack-%s:%s' % (evt[4], evt[6]), '%s %s does not conform to signature %r: args %r (%s)' % (evt[4], evt[6], evt[7], evt[8], evt[9])))
                return run
            if evt[3] == 'dbus-error' and evt[6] in ('recv_bundle_pop_data', 'send_bundle_data'):
                run.viols.append(('adaptor', 'call-failed-%s' % evt[6], 'BP-side adaptor call %s failed: %s %s' % (evt[6], evt[7], evt[8])))
                return run
            if evt[3] == 'escaped-exception':
                run.viols.append(('adaptor', 'escaped-%s@%s' % (evt[4], evt[5]), '%s escaped from %s in node %s' % (evt[4], evt[5], evt[2])))
                return run
        want = {}
        expect = {}
        for (_when, plen, tag) in plan['sends']:
            want[bc.body(tag, plen)] = 0
            expect[bc.body(tag, plen)] = expect.get(bc.body(tag, plen), 0) + 1
        for rec in har.delivered['bpB']:
            if rec['payload'] not in want:
                run.viols.append(('end-to-end', 'foreign-payload', 'the destination delivered %d octets nobody sent' % len(rec['payload'])))
                return run
            want[rec['payload']] += 1
        for (body, count) in want.items():
            if count != expect[body]:
                run.viols.append(('end-to-end', 'delivered-%d-times' % count, 'a %d-octet bundle sourced at A reached the application at B %d times' % (len(body), count)))
                return run
        left = list(har.cl['B']._rx_queue)
        if left:
            run.viols.append(('adaptor', 'not-popped', 'UDPCL agent at B still queues transfers %r: the BP adaptor did not pop them' % left))
        run.stats['probe.query_during_transfer'] = 1
    finally:
        bp_net.CURRENT = None
    return run


def _execute_udpcl(plan, sched, verbose):
    from scenarios import dgram_pair
    from props import C13
    har = dgram_pair.DgramHarness(plan, sched, verbose)
    run = _URun()
    run.har = har
    run.wld = har.wld
    run.plan = plan
    run.viols = []
    run.stats = {}
    wld = har.wld

    def do_send(item):
        dst = 'U2' if item['src'] == 'U1' else 'U1'
        har.user_send(item['src'], C13.bundle_bytes(item['tag'], item['plen']), {'address': dgram_pair.UDP_ADDR[dst], 'port': 4556})

    def do_query(item):
        (_when, side, qop) = item
        ret = har.call(side, 'recv_bundle_get_queue')
        if qop != 'rxq' and isinstance(ret, list) and ret:
            bid = ret[0]
            har.call(side, 'recv_bundle_pop_data', bid)
            if qop == 'popdup':
                har.call(side, 'recv_bundle_pop_data', bid)

    for item in plan['sends']:
        wld.at(item['t'], do_send, item)
    for item in plan['queries']:
        wld.at(item[0], do_query, item)
    har.run_until(5 * dgram_pair.SEC)
    har.settle()
    for side in ('U1', 'U2'):
        har.call(side, 'recv_bundle_get_queue')
    _judge_udpcl(run, har)
    return run


def _judge_udpcl(run, har):
    wld = har.wld
    for evt in wld.hist:
        if evt[3] == 'dbus-marshal-error':
            run.viols.append(('dbus-type', 'udpcl-%s:%s' % (evt[4], evt[6]), 'UDPCL %s %s does not conform to signature %r: args %r (%s)' % (evt[4], evt[6], evt[7], evt[8], evt[9])))
            return
    for side in ('U1', 'U2'):
        announced = [(evt[0], evt[7][0], evt[7][1]) for evt in wld.hist if evt[3] == 'dbus-signal' and evt[2] == side and evt[5] == 'recv_bundle_finished']
        popped = {}
        for call in har.calls:
            (seq, _when, cside, member, args, ret) = call
            if cside != side:
                continue
            err = isinstance(ret, tuple) and len(ret) == 3 and ret[0] == 'error'
            if member == 'recv_bundle_get_queue' and not err:
                want = set(bid for (aseq, bid, _len) in announced if aseq < seq) - set(bid for (bid, pseq) in popped.items() if pseq < seq)
                got = set(str(item) for item in ret)
                run.stats['probe.query_during_transfer'] = run.stats.get('probe.query_during_transfer', 0) + (1 if got else 0)
                if got != want:
                    run.viols.append(('rx-queue', 'udpcl-mismatch', 'UDPCL %s receive queue lists %s, model says %s' % (side, sorted(got), sorted(want))))
                    return
            elif member == 'recv_bundle_pop_data':
                bid = str(args[0])
                known = [length for (aseq, abid, length) in announced if abid == bid and aseq < seq]
                if err:
                    if known and bid not in popped:
                        run.viols.append(('pop', 'udpcl-pop-failed', 'UDPCL %s could not pop announced transfer %s' % (side, bid)))
                        return
                    if bid in popped:
                        run.stats['probe.double_pop'] = 1
                else:
                    if bid in popped:
                        run.viols.append(('pop', 'udpcl-popped-twice', 'UDPCL %s popped transfer %s twice' % (side, bid)))
                        return
                    if known and len(ret) != known[0]:
                        run.viols.append(('pop', 'udpcl-length', 'UDPCL %s popped %d octets, announced %d' % (side, len(ret), known[0])))
                        return
                    popped[bid] = seq
        for tid in set(evt[7][0] for evt in wld.hist if evt[3] == 'dbus-signal' and evt[2] == side and evt[5] == 'send_bundle_started'):
            count = len([1 for evt in wld.hist if evt[3] == 'dbus-signal' and evt[2] == side and evt[5] == 'send_bundle_finished' and evt[7][0] == tid])
            if count > 1:
                run.viols.append(('finished-once', 'udpcl-send-finished-twice', 'UDPCL %s emitted send_bundle_finished %d times for %s' % (side, count, tid)))
                return


def judge(run):
    if isinstance(run, _URun):
        return run.viols
    obs = tc.Obs(run)
    run.obs = obs
    viols = tc.check_dbus_types(obs)
    viols += tc.check_dbus_consistency(obs, final_idle_expected=tc.plan_is_graceful_open(dict(run.plan, prof=dict(run.plan['prof'], liveness=True))))
    return viols


def describe(run):
    if isinstance(run, _URun):
        counters = dict(run.wld.counters)
        counters.update(run.stats)
        if run.plan.get('scenario') == 'full_stack':
            return dict(nontrivial=True, key=run.wld.digest(), sim_us=run.wld.now, steps=run.wld.steps, capped=run.wld.capped, counters=counters,
                        sample=dict(engine='fullstack', mtu=run.plan['mtu'], bp_mtu=run.plan['bp_mtu'], sends=run.plan['sends'], net=run.plan['net']))
        counters['engine.udpcl'] = 1
        return dict(nontrivial=bool(run.stats.get('probe.query_during_transfer')), key=run.wld.digest(), sim_us=run.wld.now, steps=run.wld.steps,
                    capped=run.wld.capped, counters=counters, sample=dict(engine='udpcl', mtu=run.plan['mtu'], queries=run.plan['queries'][:8]))
    obs = getattr(run, 'obs', None) or tc.Obs(run)
    extra = {'engine.tcpcl': 1}
    for call in run.calls:
        if call[3] == 'is_sess_idle' and not isinstance(call[5], tuple):
            extra['probe.idle_true' if call[5] else 'probe.idle_false'] = 1
        if call[3] in ('send_bundle_get_queue', 'recv_bundle_get_queue') and isinstance(call[5], list) and call[5]:
            extra['probe.query_during_transfer'] = 1
    pops = {}
    for call in run.calls:
        if call[3] == 'recv_bundle_pop_data':
            pops[(call[2], call[4])] = pops.get((call[2], call[4]), 0) + 1
    if any(val > 1 for val in pops.values()):
        extra['probe.double_pop'] = 1
    info = tc.describe(obs, extra)
    info['nontrivial'] = bool(extra.get('probe.query_during_transfer') or extra.get('probe.idle_false'))
    return info
