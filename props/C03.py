''' C03 - a COSE integrity block verifies iff nothing it covers was altered.
Engine E5: real source applying BIBs, MITM link, real destination. DESIGN 5/C03.
'''
import cbor2

from props import bp_common as bc
from props import bpsec_common as sc
from ref import rfc9171, bpsec_cose

ID = 'C03'
LEVEL = 'fault_enumeration'
RULE = ('per case one security configuration (COSE_Mac0 with HMAC-256/384/512, or COSE_Sign1 with ES256 and the certificate chain in '
        'x5chain, alone or together with a MAC0 over a second target; one or two security associations in either order; targets = '
        'payload or payload + extension block; 0-2 further extension blocks; CRC types) applied by the real source node, or a foreign '
        'source built by ref/bpsec_cose.py with another AAD scope ({0,-1,-2} combinations, BTSD of a third block in scope, protected '
        'additional header). Alterations in flight: every single-bit flip in a drawn window of the transmitted encoding (with and '
        'without CRC fix-up), field-level rewrites (each primary field, target data / type / flags, security source, scope, protected '
        'header, tag / signature, kid) and wrong / missing key (for signatures: wrong / missing trust root) at the receiver; each altered copy is a freshly sourced bundle so duplicate '
        'suppression cannot explain non-delivery. The reference decoder classifies each copy as covered / surely-uncovered / other. '
        'One evaluation = one altered reception; distinct = (configuration digest, alteration).')
COMPONENTS = bc.COMPONENTS
PROBES = ('class.covered', 'class.uncovered', 'class.other', 'kind.mac0', 'kind.sign1', 'kind.foreign', 'kind.two_bib', 'kind.split_assoc', 'alt.bitflip', 'alt.field', 'alt.wrong-key',
          'alt.missing-key', 'cov.primary', 'cov.target-btsd', 'cov.target-meta', 'cov.source', 'cov.scope', 'cov.tag', 'cov.cose-protected')
ASSUMPTIONS = ['schedules and clocks play no role: the deciding dimension is the corruption fault and the key / scope configuration',
               'COSE_Mac / COSE_Encrypt with wrapped content keys need the pycose fork pinned in pyproject.toml; upstream pycose 1.1.0 installed here raises in those paths, so they are not exercised',
               'COSE_Sign1 runs with a deterministic two-certificate PKI (scenarios/pki.py); chain validation is done by the certvalidator shim '
               '(signatures, validity, key usage, extended key usage checked with cryptography); key identification by thumbprint (x5t) cannot be '
               'exercised: the upstream pycose installed here cannot encode it']
CHUNK = 4
BUDGET = {'quick': 40, 'thorough': 600}
#: one run makes hundreds of evaluations (each a freshly sourced, altered, delivered bundle): longer per-run watchdog
WATCHDOG_S = 900


def gen(ch, tier):
    kind = ch.choice('kind', ('mac0-256', 'mac0-384', 'mac0-512', 'foreign', 'foreign', 'mac0-256', 'sign1-chain', 'sign1-chain', 'two-bib'))
    if kind == 'two-bib':
        # two integrity blocks from two security sources (the source and a gateway), each over its own target, in either block order
        return dict(scenario='bpsec_bib', kind=kind, plen=ch.choice('plen', (1, 8, 40)), tgt_ext=False, others=ch.weighted('others', (2, 3, 1)),
                    pri_crc=ch.choice('pc', (0, 0, 2, 1)), blk_crc=ch.choice('bc', (0, 0, 1, 2)), window=0, wsize=0, accept=ch.coin('accept', 2, 3),
                    fixup=True, dst_key='right', order=ch.choice('order', ('payload-first', 'ext-first')),
                    scope=ch.choice('scope', ([[0, 1], [-1, 1]], [[0, 1], [-1, 1], [-2, 1]], [[-1, 1]])))
    plan = dict(scenario='bpsec_bib', kind=kind, plen=ch.choice('plen', (1, 8, 40)), tgt_ext=ch.coin('tgtext', 1, 3),
                others=ch.weighted('others', (2, 3, 1)), pri_crc=ch.choice('pc', (0, 0, 2, 1)), blk_crc=ch.choice('bc', (0, 0, 1, 2)),
                window=ch.pick('window', 1 << 16), wsize=24 if tier == 'quick' else 96, accept=ch.coin('accept', 1, 2),
                fixup=ch.coin('fixup', 2, 3), dst_key=ch.choice('dstkey', ('right', 'right', 'right', 'wrong', 'missing')))
    plan['split_assoc'] = plan['tgt_ext'] and ch.coin('split', 1, 2)
    # the bundle is sent from a service endpoint of the node: bundle source and security source differ
    plan['svc_source'] = ch.coin('svcsrc', 1, 3)
    if kind.startswith('sign1') and ch.coin('cert', 1, 4):
        # signed with the right private key, but the certificate (of the trusted CA) names another node or none: not the key of this source
        plan['cert'] = ch.choice('certk', ('other-id', 'no-id'))
        plan['dst_key'] = 'wrong'
        # ... and the receiver may already have verified an honest bundle of the node that certificate does name
        plan['primed'] = plan['cert'] == 'other-id' and kind == 'sign1-chain' and ch.coin('primed', 2, 3)
    if kind.startswith('foreign'):
        plan['scope'] = ch.choice('scope', ([[0, 1], [-1, 1]], [[0, 1], [-1, 1], [-2, 1]], [[-1, 1]], [[0, 1]], [[-1, 1], [3, 2]], [[0, 1], [-1, 3]], [[0, 1], [-1, 1], [3, 3]], [[-1, 1], [3, 1]]))
        plan['addl'] = ch.coin('addl', 1, 3)
        plan['alg'] = ch.choice('falg', (5, 6, 7))
        plan['others'] = max(1, plan['others'])
    return plan


def _policy(plan):
    kind = plan['kind']
    targets = [1, 192] if plan['tgt_ext'] else [1]
    if kind.startswith('mac0-'):
        ops = [dict(type='bib', kid='mac' + kind[5:])]
    elif kind.startswith('sign1'):
        # COSE_Sign1 (ES256) with the certificate chain (x5chain) or only its thumbprint (x5t) as key identity
        ops = [dict(type='bib', kid='PEM')]
    elif kind.startswith('mac-kw'):
        ops = [dict(type='bib', kid='kw' + kind[6:], content_alg='HMAC256', content_key='5a' * 32)]
    else:
        return []
    if kind.startswith('sign1') and plan['tgt_ext']:
        # a signature over the payload and a MAC over the extension block, from two associations, in one integrity block
        pair = [dict(src='.*', dst='.*', targets=[1], ops=ops), dict(src='.*', dst='.*', targets=[192], ops=[dict(type='bib', kid='mac256')])]
        return pair if plan.get('split_assoc') else pair[::-1]
    if plan['tgt_ext'] and plan.get('split_assoc'):
        # two associations, the one for the extension block listed first: operations are not in ascending target order
        return [dict(src='.*', dst='.*', targets=[192], ops=ops), dict(src='.*', dst='.*', targets=[1], ops=ops)]
    return [dict(src='.*', dst='.*', targets=targets, ops=ops)]


def _kid(plan):
    kind = plan['kind']
    if kind.startswith('mac0-'):
        return 'mac' + kind[5:]
    if kind.startswith('mac-kw'):
        return 'kw' + kind[6:]
    if kind == 'foreign-kw':
        return 'kw256'
    return 'mac256' if plan.get('alg', 5) == 5 else ('mac384' if plan['alg'] == 6 else 'mac512')


def _dst_keys(plan):
    kid = _kid(plan)
    if plan['dst_key'] == 'right':
        return list(sc.KEYS.values())
    if plan['dst_key'] == 'wrong':
        return [key if key['kid'] != kid else sc.wrong_key(kid) for key in sc.KEYS.values()]
    return [key for key in sc.KEYS.values() if key['kid'] != kid]


def _ext_blocks(plan):
    blocks = []
    if plan['tgt_ext']:
        blocks.append(dict(type=192, flags=0, crc_type=plan['blk_crc'], btsd=b'\x45TGTXB'))
    for ix in range(plan['others']):
        blocks.append(dict(type=193, flags=ix & 1, crc_type=plan['blk_crc'], btsd=b'\x44OTH' + bytes([0x30 + ix])))
    return blocks


def seq_code(index):
    ''' Sequence numbers with pairwise Hamming distance >= 2 (even parity), so a
    single flipped bit in the sequence number of one copy can never produce the
    identity of another copy (the receiver remembers identities before it
    verifies security). All values need a 2-octet CBOR argument. '''
    base = 300 + index
    return (base << 1) | (bin(base).count('1') & 1)


def make_copy(plan, har, seqno):
    ''' One freshly sourced, secured bundle as transmitted. '''
    seqno = seq_code(seqno)
    payload = bc.body(seqno, plan['plen'])
    if not plan['kind'].startswith('foreign'):
        return sc.source_bundle(har, seqno, payload, _ext_blocks(plan), pri_crc=plan['pri_crc'], pay_crc=plan['blk_crc'], source='dtn://s/svc7' if plan.get('svc_source') else None)
    pri = dict(flags=0, crc_type=plan['pri_crc'], destination='dtn://d/app', source='dtn://s/', report_to='dtn:none',
               create_time=820000000000, seqno=seqno, lifetime=3600000)
    blocks = []
    for (ix, blk) in enumerate(_ext_blocks(plan)):
        blocks.append(dict(type=blk['type'], num=3 + ix, flags=blk['flags'], crc_type=blk['crc_type'], btsd=blk['btsd']))
    target = dict(type=1, num=1, flags=0, crc_type=plan['blk_crc'], btsd=payload)
    scope = {key: val for (key, val) in plan['scope']}
    pseudo = dict(blocks=blocks)
    addl = cbor2.dumps({99: 'x'}) if False else b''
    kid = _kid(plan)
    bib = bpsec_cose.make_bib(pri, target, sc.RAW_KEYS[kid.encode()], kid.encode(), num=2, alg=plan['alg'], scope=scope, source='dtn://s/',
                              crc_type=plan['blk_crc'], bundle=pseudo, addl_protected=addl,
                              wrap_cek=(b'\x5a' * 32) if plan['kind'] == 'foreign-kw' else None)
    return rfc9171.encode_bundle(pri, [bib] + blocks + [target])


class Run:
    pass


def _pki(plan):
    ''' (source pki, destination pki) for the signing kinds: the receiver's trust root plays the role of the key. '''
    if not plan['kind'].startswith('sign1'):
        return (None, None)
    chain = plan['kind'] == 'sign1-chain'
    trust = {'right': 'right', 'wrong': 'wrong', 'missing': None}[plan['dst_key']]
    if plan.get('cert'):
        trust = 'right'
    return (dict(sign=True, include_chain=chain, source='dtn://s/', cert=plan.get('cert')),
            dict(sign=False, include_chain=chain, source='dtn://s/', trust=trust, knows_end_cert=not chain))


def execute(plan, sched, verbose=False):
    (src_pki, dst_pki) = _pki(plan)
    extra = None
    if plan.get('primed'):
        # the rightful owner of the certificate: node dtn://mallory/, same key pair, same certificate, same policy
        extra = {'m': dict(node_id='dtn://mallory/', rx_routes=[], tx_routes=[['.*', 'dtn://d/', None, 'd']],
                           security=dict(keys=list(sc.KEYS.values()), policies=_policy(plan), pki=dict(src_pki)))}
    har = sc.make_world(sched, _policy(plan), _dst_keys(plan), plan['accept'], verbose, src_pki=src_pki, dst_pki=dst_pki, extra_nodes=extra)
    run = Run()
    run.har = har
    run.wld = har.wld
    run.plan = plan
    run.viols = []
    run.stats = dict(evals=0)
    run.keys = []
    try:
        _drive(run, plan, har)
    finally:
        har.close()
    return run


def _scope_of(dec):
    bibs = sc.sec_blocks(dec, rfc9171.TYPE_BIB)
    asb = bpsec_cose.parse_asb(bibs[0]['btsd'])
    (scope, _addl) = bpsec_cose.scope_and_protected(asb)
    return (bibs[0], asb, scope)


def classify(orig, alt_bytes, plan):
    ''' ('covered'|'uncovered'|'other', labels, coverage tags) '''
    try:
        alt = rfc9171.decode_bundle(alt_bytes)
    except rfc9171.Malformed:
        return ('other', {'malformed'}, set())
    labels = sc.describe_change(orig, alt)
    (bib, asb, scope) = _scope_of(orig)
    if not [blk for blk in alt['blocks'] if blk['num'] == bib['num'] and blk['type'] == rfc9171.TYPE_BIB]:
        # the alteration removed the integrity block itself (for example a length head that now swallows it, or an
        # early end of the block array): nothing is left to verify, which is outside this property
        return ('other', labels | {'bib-removed'}, set())
    targets = set(asb['targets'])
    secnums = set(blk['num'] for blk in orig['blocks'] if blk['type'] in (rfc9171.TYPE_BIB, rfc9171.TYPE_BCB))
    named = set(key for key in scope if key > 0)
    covered = set()
    for label in labels:
        if label == 'primary' and scope.get(0, 0) & 1:
            covered.add('cov.primary')
        elif label.startswith('btsd:') and int(label[5:]) in targets:
            covered.add('cov.target-btsd')
        elif label.startswith('btsd:') and int(label[5:]) in named and scope[int(label[5:])] & 2:
            covered.add('cov.scope-block-btsd')
        elif label.startswith('meta:') and int(label[5:]) in targets and scope.get(-1, 0) & 1:
            covered.add('cov.target-meta')
        elif label.startswith('meta:') and int(label[5:]) in named and scope[int(label[5:])] & 1:
            covered.add('cov.scope-block-meta')
        elif label.startswith('asb:'):
            what = label.split(':', 2)[2]
            if what == 'source':
                covered.add('cov.source')
            elif what == 'scope':
                covered.add('cov.scope')
            elif what == 'addl-protected':
                covered.add('cov.addl-protected')
            elif what == 'cose-protected':
                covered.add('cov.cose-protected')
            elif what == 'cose-tag':
                covered.add('cov.tag')
    if covered:
        # a change that also breaks the structure elsewhere still must not verify
        return ('covered', labels, covered)
    if labels and all(label.startswith('btsd:') and int(label[5:]) not in targets | secnums | named for label in labels):
        return ('uncovered', labels, set())
    return ('other', labels, set())


def field_alterations(orig, plan):
    ''' MITM rewrites: list of (name, primary_changes, block_changes) applied with CRC recomputation. '''
    (bib, asb, scope) = _scope_of(orig)
    tnum = asb['targets'][0]
    tgt = [blk for blk in orig['blocks'] if blk['num'] == tnum][0]
    alts = []
    pri = orig['primary']
    alts.append(('pri.destination', dict(destination='dtn://d/other'), {}))
    alts.append(('pri.source', dict(source='dtn://evil/'), {}))
    alts.append(('pri.report_to', dict(report_to='dtn://rpt/'), {}))
    alts.append(('pri.lifetime', dict(lifetime=pri['lifetime'] + 1), {}))
    alts.append(('pri.flags', dict(flags=pri['flags'] | 0x20), {}))
    alts.append(('pri.create_time', dict(create_time=pri['create_time'] + 1), {}))
    alts.append(('tgt.btsd', {}, {tnum: dict(btsd=tgt['btsd'][:-1] + bytes([tgt['btsd'][-1] ^ 1]))}))
    alts.append(('tgt.btsd-extend', {}, {tnum: dict(btsd=tgt['btsd'] + b'\x00')}))
    alts.append(('tgt.flags', {}, {tnum: dict(flags=tgt['flags'] ^ 0x10)}))

    def asb_edit(func):
        new = bpsec_cose.parse_asb(bib['btsd'])
        func(new)
        return bpsec_cose.encode_asb(new['targets'], new['source'], new['params'], new['results'], new['context_id'], new['flags'])

    def set_source(new):
        new['source'] = 'dtn://other/'

    def set_scope(new):
        new['params'] = [(pid, ({0: 1, -1: 1, -2: 1} if val != {0: 1, -1: 1, -2: 1} else {-1: 1}) if pid == 5 else val) for (pid, val) in new['params']]

    def edit_msg(index, func):
        def inner(new):
            res = []
            for tgt_res in new['results']:
                items = []
                for (rid, val) in tgt_res:
                    msg = cbor2.loads(val)
                    func(msg)
                    items.append((rid, cbor2.dumps(msg)))
                res.append(items)
            new['results'] = res
        return inner

    def flip_tag(msg):
        msg[3] = msg[3][:-1] + bytes([msg[3][-1] ^ 1])

    def flip_prot(msg):
        hdr = cbor2.loads(msg[0])
        hdr[1] = {5: 6, 6: 7, 7: 5}.get(hdr.get(1), 5)
        msg[0] = cbor2.dumps(hdr)

    def change_kid(msg):
        if 4 in msg[1]:
            msg[1][4] = b'nobody'
        elif len(msg) > 4:
            msg[4][0][1][4] = b'nobody'

    def attach_original(msg):
        msg[2] = tgt['btsd']

    # the target altered while the COSE message carries the original content as an attached payload
    alts.append(('tgt.btsd+attached-original', {}, {tnum: dict(btsd=tgt['btsd'][:-1] + bytes([tgt['btsd'][-1] ^ 1])),
                                                   bib['num']: dict(btsd=asb_edit(edit_msg(0, attach_original)))}))
    alts.append(('asb.source', {}, {bib['num']: dict(btsd=asb_edit(set_source))}))

    def set_source_lookalike(new):
        # another spelling that a lenient reader takes for the same node: without (or with) the trailing slash
        new['source'] = new['source'][:-1] if new['source'].endswith('/') and new['source'].count('/') == 3 else new['source'] + '/'

    alts.append(('asb.source-lookalike', {}, {bib['num']: dict(btsd=asb_edit(set_source_lookalike))}))
    if pri['source'].endswith('/') and pri['source'].count('/') == 3:
        alts.append(('pri.source-lookalike', dict(source=pri['source'][:-1]), {}))
    alts.append(('asb.scope', {}, {bib['num']: dict(btsd=asb_edit(set_scope))}))
    alts.append(('cose.tag', {}, {bib['num']: dict(btsd=asb_edit(edit_msg(0, flip_tag)))}))
    alts.append(('cose.protected', {}, {bib['num']: dict(btsd=asb_edit(edit_msg(0, flip_prot)))}))
    alts.append(('cose.kid', {}, {bib['num']: dict(btsd=asb_edit(edit_msg(0, change_kid)))}))
    for blk in orig['blocks']:
        if blk['type'] == 193:
            alts.append(('other.btsd:%d' % blk['num'], {}, {blk['num']: dict(btsd=blk['btsd'] + b'!')}))
            alts.append(('other.flags:%d' % blk['num'], {}, {blk['num']: dict(flags=blk['flags'] ^ 0x10)}))
    return alts


EXT_TWO = b'\x4cSECOND-TARGET'


def make_two(plan, index):
    ''' Reference-built bundle with two integrity blocks: one of the source over the payload (key mac256), one of a gateway over an
    extension block (key mac384). '''
    seqno = seq_code(index)
    payload = bc.body(seqno, plan['plen'])
    pri = dict(flags=0, crc_type=plan['pri_crc'], destination='dtn://d/app', source='dtn://s/', report_to='dtn:none',
               create_time=820000000000, seqno=seqno, lifetime=3600000)
    scope = {key: val for (key, val) in plan['scope']}
    others = [dict(type=193, num=5 + ix, flags=ix & 1, crc_type=plan['blk_crc'], btsd=b'\x44OTH' + bytes([0x30 + ix])) for ix in range(plan['others'])]
    pay = dict(type=1, num=1, flags=0, crc_type=plan['blk_crc'], btsd=payload)
    ext = dict(type=192, num=4, flags=0, crc_type=plan['blk_crc'], btsd=EXT_TWO)
    bib_a = bpsec_cose.make_bib(pri, pay, sc.RAW_KEYS[b'mac256'], b'mac256', num=2, alg=5, scope=scope, source='dtn://s/', crc_type=plan['blk_crc'])
    bib_b = bpsec_cose.make_bib(pri, ext, sc.RAW_KEYS[b'mac384'], b'mac384', num=3, alg=6, scope=scope, source='dtn://gw/', crc_type=plan['blk_crc'])
    secs = [bib_a, bib_b] if plan['order'] == 'payload-first' else [bib_b, bib_a]
    return (rfc9171.encode_bundle(pri, secs + [ext] + others + [pay]), payload)


def _drive_two(run, plan, har):
    stats = run.stats
    cfg = bc.digest({key: plan[key] for key in ('kind', 'plen', 'others', 'pri_crc', 'blk_crc', 'accept', 'order', 'scope')})
    stats['kind.two_bib'] = 1
    cases = [('unmodified', None), ('payload-data', 1), ('ext-data', 4), ('unmodified-again', None), ('ext-data-first-octet', 4)]
    for (index, (name, tnum)) in enumerate(cases):
        (copy, payload) = make_two(plan, index)
        orig = rfc9171.decode_bundle(copy)
        if tnum is not None:
            tgt = [blk for blk in orig['blocks'] if blk['num'] == tnum][0]
            new = (tgt['btsd'][:-1] + bytes([tgt['btsd'][-1] ^ 0x01])) if not name.endswith('first-octet') else (bytes([tgt['btsd'][0]]) + bytes([tgt['btsd'][1] ^ 0x20]) + tgt['btsd'][2:])
            copy = rfc9171.reencode(orig, {}, {tnum: dict(btsd=new)})
            stats['alt.field'] = stats.get('alt.field', 0) + 1
            stats['class.covered'] = stats.get('class.covered', 0) + 1
            stats['cov.target-btsd'] = stats.get('cov.target-btsd', 0) + 1
        stats['evals'] += 1
        run.keys.append((cfg, name))
        (rec, dels, _outs) = sc.deliver(har, copy)
        where = '%s, two integrity blocks (%s), accept %s' % (name, plan['order'], plan['accept'])
        if tnum is None:
            if len(dels) != 1 or dels[0]['payload'] != payload:
                run.viols.append(('unmodified', 'not-delivered-two-bib', 'an unmodified bundle with two integrity blocks was not delivered intact (deliveries %d, actions %s reason %s error %s)' % (
                    len(dels), rec['actions'], rec['reason'], rec['error'])))
                return
        else:
            if dels:
                run.viols.append(('covered', 'delivered:cov.target-btsd/two-bib', 'delivered although the target of one of two integrity blocks was altered (%s)' % where))
                return
            if rec['error'] is None and ('delete' not in (rec['actions'] or []) or rec['reason'] not in (12, 13, 14, 15, 16)):
                run.viols.append(('covered', 'no-security-failure:two-bib', 'not delivered but no security failure recorded: actions %s reason %s (%s)' % (rec['actions'], rec['reason'], where)))
                return


def _drive(run, plan, har):
    if plan['kind'] == 'two-bib':
        return _drive_two(run, plan, har)
    stats = run.stats
    cfg = bc.digest({key: plan[key] for key in ('kind', 'plen', 'tgt_ext', 'split_assoc', 'others', 'pri_crc', 'blk_crc', 'dst_key', 'accept', 'cert', 'svc_source') if key in plan} | {'scope': plan.get('scope')})
    kindtag = 'kind.' + ('mac0' if plan['kind'].startswith('mac0') else ('sign1' if plan['kind'].startswith('sign1') else (
        'mac-kw' if plan['kind'] == 'foreign-kw' else 'foreign')))
    stats[kindtag] = 1
    if plan.get('split_assoc') and not plan['kind'].startswith('foreign'):
        stats['kind.split_assoc'] = 1
    seqno = 0
    if plan.get('primed'):
        # history at the receiver: an honest, unmodified bundle of the node the certificate names is verified and delivered first
        honest = sc.source_bundle(har, seq_code(900), bc.body(1900, plan['plen']), pri_crc=plan['pri_crc'], pay_crc=plan['blk_crc'], node='m')
        if honest is None:
            run.viols.append(('setup', 'source-did-not-transmit', 'the rightful owner of the certificate transmitted nothing'))
            return
        (_rec, dels, _outs) = sc.deliver(har, honest)
        if len(dels) != 1:
            run.viols.append(('unmodified', 'not-delivered-sign1-owner', 'an unmodified bundle signed by the node its certificate names was not delivered (actions %s reason %s)' % (_rec['actions'], _rec['reason'])))
            return
        stats['probe.receiver_primed_with_owner'] = 1
    first = make_copy(plan, har, seqno)
    if first is None:
        run.viols.append(('setup', 'source-did-not-transmit', 'the source node transmitted nothing for the secured bundle'))
        return
    try:
        orig0 = rfc9171.decode_bundle(first)
    except rfc9171.Malformed as err:
        run.viols.append(('wire', 'source-output-malformed', 'the secured bundle the source transmitted is not well-formed: %s' % err))
        return
    if not sc.sec_blocks(orig0, rfc9171.TYPE_BIB):
        run.viols.append(('setup', 'no-bib', 'the transmitted bundle carries no integrity block although policy demands one'))
        return
    if not plan['kind'].startswith('foreign'):
        diff = sc.policy_targets_covered(orig0, rfc9171.TYPE_BIB, [1, 192] if plan['tgt_ext'] else [1])
        if diff:
            run.viols.append(('produce', 'policy-targets-not-covered', 'integrity: ' + diff))
            return
    # independent check of what the source produced
    if plan['kind'] != 'mac-kw-skip':
        bib = sc.sec_blocks(orig0, rfc9171.TYPE_BIB)[0]
        okay = bpsec_cose.verify_bib(orig0, bib, sc.RAW_KEYS)
        if not all(okay):
            run.viols.append(('produce', 'reference-rejects-' + plan['kind'], 'the independent verifier rejects the BIB the agent produced (per target %r)' % okay))
            return
    # 0. unmodified copy
    (rec, dels, _outs) = sc.deliver(har, first)
    stats['evals'] += 1
    run.keys.append((cfg, 'unmodified'))
    right = plan['dst_key'] == 'right'
    if right and len(dels) != 1:
        run.viols.append(('unmodified', 'not-delivered-' + plan['kind'] + ('-' + repr(plan.get('scope')) if plan['kind'].startswith('foreign') else ''),
                          'an unmodified bundle with a valid BIB was not delivered (actions %s reason %s error %s)' % (rec['actions'], rec['reason'], rec['error'])))
        return
    if not right:
        stats['alt.' + plan['dst_key'] + '-key'] = 1
        if dels:
            run.viols.append(('key', 'delivered-with-' + plan['dst_key'] + '-key', 'the bundle was delivered although the receiver holds a %s key' % plan['dst_key']))
        elif rec['error'] is None and ('delete' not in (rec['actions'] or []) or rec['reason'] not in (12, 13, 14, 15, 16)):
            run.viols.append(('key', 'no-security-failure-' + plan['dst_key'] + '-key', 'verification failure not recorded as a security failure (actions %s reason %s)' % (rec['actions'], rec['reason'])))
        return
    if dels[0]['payload'] != bc.body(seq_code(seqno), plan['plen']):
        run.viols.append(('unmodified', 'payload-changed', 'delivered payload differs'))
        return
    # 1. bit flips
    alterations = []
    nbits = len(first) * 8
    wbytes = min(plan['wsize'], len(first))
    start = (plan['window'] % (len(first) - wbytes + 1)) * 8
    for pos in range(start, start + wbytes * 8):
        alterations.append(('bit', pos))
    # 2. field rewrites (computed per copy)
    nfields = len(field_alterations(orig0, plan))
    for fix in range(nfields):
        alterations.append(('field', fix))
    for (akind, aval) in alterations:
        seqno += 1
        copy = make_copy(plan, har, seqno)
        if copy is None or len(copy) != len(first):
            continue
        orig = rfc9171.decode_bundle(copy)
        if akind == 'bit':
            arr = bytearray(copy)
            arr[aval // 8] ^= 0x80 >> (aval % 8)
            alt = bytes(arr)
            stats['alt.bitflip'] = stats.get('alt.bitflip', 0) + 1
            name = 'bit %d' % aval
            (klass, labels, cov) = classify(orig, alt, plan)
            if plan['fixup'] or klass == 'uncovered':
                fixed = sc.fixup_crcs(alt)
                if fixed is not None:
                    alt = fixed
                    (klass, labels, cov) = classify(orig, alt, plan)
        else:
            (name, pchg, bchg) = field_alterations(orig, plan)[aval]
            alt = rfc9171.reencode(orig, pchg, bchg)
            stats['alt.field'] = stats.get('alt.field', 0) + 1
            (klass, labels, cov) = classify(orig, alt, plan)
        stats['class.' + klass] = stats.get('class.' + klass, 0) + 1
        for tag in cov:
            stats[tag] = stats.get(tag, 0) + 1
        stats['evals'] += 1
        run.keys.append((cfg, akind, aval))
        (rec, dels, _outs) = sc.deliver(har, alt)
        where = '%s of a %s bundle: changed %s' % (name, plan['kind'], sorted(labels))
        if klass == 'covered':
            if dels:
                run.viols.append(('covered', 'delivered:' + '+'.join(sorted(cov)), 'delivered although covered content was altered (%s)' % where))
                return
            crc_dropped = rec['actions'] == [] and rec['error'] is None
            try:
                still_local = rfc9171.decode_bundle(alt)['primary']['destination'].startswith('dtn://d/')
            except rfc9171.Malformed:
                still_local = False
            if rec['error'] is None and not crc_dropped and still_local and ('delete' not in rec['actions'] or rec['reason'] not in (12, 13, 14, 15, 16)):
                run.viols.append(('covered', 'no-security-failure:' + '+'.join(sorted(cov)), 'not delivered but no security failure recorded: actions %s reason %s (%s)' % (
                    rec['actions'], rec['reason'], where)))
                return
        elif klass == 'uncovered':
            if len(dels) != 1:
                run.viols.append(('uncovered', 'not-delivered', 'a change outside the declared scope stopped delivery (%s); actions %s reason %s error %s' % (
                    where, rec['actions'], rec['reason'], rec['error'])))
                return


def judge(run):
    return run.viols


def describe(run):
    counters = dict(run.wld.counters)
    counters.update({key: val for (key, val) in run.stats.items() if key != 'evals'})
    plan = run.plan
    sample = dict(plan={key: val for (key, val) in plan.items() if key not in ('window',)}, evals=run.stats['evals'])
    return dict(nontrivial=True, keys=[bc.digest(key) for key in run.keys], evals=max(1, run.stats['evals']), sim_us=run.wld.now, steps=run.wld.steps,
                capped=run.wld.capped, counters=counters, sample=sample)
