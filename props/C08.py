''' C08 - block CRCs are always valid on output and always checked on input.
Engine E5, corruption-fault enumeration. DESIGN 5/C08.
'''
from scenarios import bp_net
from props import bp_common as bc
from ref import rfc9171

ID = 'C08'
LEVEL = 'fault_enumeration'
RULE = ('per case one generated bundle (CRC type 0/1/2 drawn per block, 0-2 extension blocks, deliver or forward route) and, for every '
        'single-bit flip position in a drawn window of its encoding (all positions when the bundle is at most 48 octets) plus bursts up to the '
        'CRC width, the reception sequence corrupt copy -> clean copy -> duplicate on one agent, each with a fresh identity. The reference '
        'decoder classifies each corrupt copy; when it is malformed or a protected block fails its independently computed CRC the node must '
        'show no delivery, forward or report, and the clean copy must then be processed exactly once. Every bundle any node transmits is '
        're-decoded and each CRC recomputed bitwise. One evaluation = one corrupt reception; distinct = (bundle digest, flip).')
COMPONENTS = bc.COMPONENTS
PROBES = ('out.secured_checked', 'flip.octet_mask', 'flip.in_primary', 'flip.in_payload_block', 'flip.in_crc_field', 'flip.in_crc_type', 'flip.burst', 'class.malformed', 'class.crc_mismatch',
          'class.unprotected', 'out.bundles_checked', 'probe.bulk_block')
ASSUMPTIONS = ['a corrupted copy that still has valid CRCs everywhere (flip inside a block of CRC type 0) carries no requirement here',
               'schedules and clocks play no role: the deciding dimension is the corruption fault']
CHUNK = 4
BUDGET = {'quick': 40, 'thorough': 600}
#: one run makes hundreds of evaluations (each a freshly sourced, altered, delivered bundle): longer per-run watchdog
WATCHDOG_S = 900


def gen(ch, tier):
    route = ch.choice('route', ('deliver', 'forward'))
    blocks = []
    for bix in range(ch.weighted('next', (3, 3, 2))):
        blocks.append(dict(type=ch.choice('btype', (7, 10, 192, 6)), num=2 + bix, crc_type=ch.pick('bcrc', 3),
                           flags=ch.choice('bflags', (0, 0, 1))))
    plan = dict(scenario='bp_crc', route=route,
                pri_crc=ch.choice('pcrc', (1, 2, 2, 1, 0)), pay_crc=ch.choice('ycrc', (1, 2, 2, 0)),
                pay_len=ch.choice('plen', (1, 5, 20, 24, 60)), blocks=blocks,
                flags=ch.choice('flags', (0, 0, rfc9171.FLAG_RPT_DELIVERY | rfc9171.FLAG_RPT_RECEPTION, rfc9171.FLAG_RPT_FORWARD)),
                window=ch.pick('window', 1 << 16), wsize=48 if tier == 'quick' else 160,
                bursts=[[ch.pick('b.pos', 1 << 16), 2 + ch.pick('b.len', 15)] for _ in range(4)],
                secured_output=ch.choice('secout', (None, None, 'bib', 'bcb', 'bib+bcb')))
    if ch.coin('bulk', 1, 10):
        # a payload block of more than 64 KiB (length head of five octets), the window placed over the head of that block
        plan['pay_len'] = ch.choice('bulk.len', (65536, 70000))
        plan['pay_crc'] = plan['pay_crc'] or 2
        plan['bulk'] = True
        plan['secured_output'] = None
    return plan


def base_bundle(plan, seqno):
    pri = dict(flags=plan['flags'], crc_type=plan['pri_crc'], destination='dtn://n1/app' if plan['route'] == 'deliver' else 'dtn://far/app',
               source='dtn://src/', report_to='dtn://rpt/', create_time=1000000, seqno=seqno)
    blocks = []
    for blk in plan['blocks']:
        if blk['type'] == 10:
            btsd = bytes([0x82, 0x18, 30, 2])
        elif blk['type'] == 7:
            btsd = bytes([0x19, 0x03, 0xE8])
        elif blk['type'] == 6:
            btsd = rfc9171.cbor2.dumps([1, '//prev/'])
        else:
            btsd = b'\x43abc'
        blocks.append(dict(type=blk['type'], num=blk['num'], flags=blk['flags'], crc_type=blk['crc_type'], btsd=btsd))
    blocks.append(dict(type=1, num=1, flags=0, crc_type=plan['pay_crc'], btsd=bc.body(7, plan['pay_len'])))
    return rfc9171.encode_bundle(pri, blocks)


def _crc_spans(dec):
    ''' Octet spans of the CRC-type items and CRC-value items of the CRC-carrying blocks of a decoded (clean) bundle. '''
    import cbor2
    out = []
    for blk in [dec['primary']] + dec['blocks']:
        if not blk['crc_type']:
            continue
        (beg, end) = blk['range']
        width = 2 if blk['crc_type'] == 1 else 4
        out.append(('crc_field', (end - width - 1, end)))
        if 'btsd_range' in blk:
            size = len(blk['btsd'])
            head = 1 if size < 24 else 2 if size < 256 else 3 if size < 65536 else 5
            pos = blk['btsd_range'][0] - head - 1
        else:
            pos = beg + 2 + len(cbor2.dumps(blk['flags']))
        out.append(('crc_type', (pos, pos + 1)))
    return out


def _is_admin_out(data):
    ''' Whether a transmitted bundle is an administrative record; an output the reference decoder rejects is not one. '''
    try:
        return bc.is_admin(rfc9171.decode_bundle(data))
    except rfc9171.Malformed:
        return False


class Run:
    pass


def execute(plan, sched, verbose=False):
    nodes = {'n1': dict(node_id='dtn://n1/', rx_routes=[['dtn://n1/.*', 'deliver'], ['dtn://far/.*', 'forward']],
                        tx_routes=[['.*', 'dtn://next/', None, None]])}
    har = bp_net.BpHarness(dict(nodes=nodes), sched, verbose)
    run = Run()
    run.har = har
    run.wld = har.wld
    run.plan = plan
    run.viols = []
    run.stats = dict(evals=0)
    run.keys = []
    try:
        _drive(run, plan, har)
    finally:
        har.close()
    if plan.get('secured_output') and not run.viols:
        _secured_output(run, plan, sched)
    return run


def _secured_output(run, plan, sched):
    ''' Output clause for bundles that a transmit step rewrites late: a source node with a security policy (integrity,
    confidentiality or both over the payload) sends CRC-protected bundles; every block as transmitted must carry the
    CRC of its final content. '''
    from props import bpsec_common as sc
    kind = plan['secured_output']
    ops = {'bib': [dict(type='bib', kid='mac256')], 'bcb': [dict(type='bcb', kid='enc256', ivs=['%024x' % (7 + ix) for ix in range(8)])]}
    policy = [dict(src='.*', dst='.*', targets=[1], ops=ops[part]) for part in kind.split('+')]
    har = sc.make_world(sched, policy, list(sc.KEYS.values()), False)
    try:
        for ix in range(2):
            data = sc.source_bundle(har, 4000 + ix, bc.body(70 + ix, plan['pay_len']), [], pri_crc=plan['pri_crc'], pay_crc=plan['pay_crc'] or 1)
            if data is None:
                run.stats['out.secured_not_sent'] = run.stats.get('out.secured_not_sent', 0) + 1
                continue
            try:
                dec = rfc9171.decode_bundle(data)
            except rfc9171.Malformed as err:
                run.viols.append(('output', 'secured-undecodable', 'bundle sent under a %s policy is not well-formed: %s' % (kind, err)))
                return
            run.stats['out.secured_checked'] = run.stats.get('out.secured_checked', 0) + 1
            for blk in [dec['primary']] + dec['blocks']:
                if not blk['crc_ok']:
                    run.viols.append(('output', 'crc-invalid-under-%s-policy' % kind, 'block %s of a bundle sent under a %s policy carries a wrong CRC (type %d)' % (
                        blk.get('num', 'primary'), kind, blk['crc_type'])))
                    return
    finally:
        har.close()


def _observed(har, mark):
    ''' What became visible since ``mark`` = (deliveries, outputs). '''
    return (har.delivered['n1'][mark[0]:], har.cl_out['n1'][mark[1]:])


def _mark(har):
    return (len(har.delivered['n1']), len(har.cl_out['n1']))


def _drive(run, plan, har):
    probe = base_bundle(plan, 1000)
    nbits = len(probe) * 8
    if plan.get('bulk'):
        # the items in front of the data of the bulk block (type code, number, flags, CRC type, length head) and its first octets
        first = rfc9171.decode_bundle(probe)['blocks'][-1]['range'][0]
        positions = list(range(first * 8, (first + 12) * 8))
        run.stats['probe.bulk_block'] = 1
    elif len(probe) <= plan['wsize']:
        positions = list(range(nbits))
    else:
        start = (plan['window'] % (len(probe) - plan['wsize'] + 1)) * 8
        positions = list(range(start, start + plan['wsize'] * 8))
    flips = [('bit', pos, 1) for pos in positions]
    for (pos, width) in plan['bursts']:
        flips.append(('burst', pos % max(1, nbits - width), width))
    # bursts inside one octet that turn one well-formed CBOR head into another (unsigned 0/1 <-> false/true, array <-> byte
    # string or map, anything -> break): corruptions a CRC must catch although the damaged item may still decode
    for bytepos in sorted(set(pos // 8 for pos in positions)):
        for mask in (0xf4, 0xc0, 0x20, 0xe0, None):
            flips.append(('mask', bytepos * 8, mask))
    dec0 = rfc9171.decode_bundle(probe)
    stats = run.stats
    seqno = 1000
    clean_outs = []
    for (kind, pos, width) in flips:
        seqno += 1
        clean = base_bundle(plan, seqno)
        if len(clean) != len(probe):
            continue
        arr = bytearray(clean)
        if kind == 'bit':
            arr[pos // 8] ^= 0x80 >> (pos % 8)
        elif kind == 'mask':
            arr[pos // 8] = (arr[pos // 8] ^ width) if width is not None else 0xff
            if arr[pos // 8] == clean[pos // 8]:
                continue
            stats['flip.octet_mask'] = stats.get('flip.octet_mask', 0) + 1
        else:
            for bit in range(pos, pos + width):
                arr[bit // 8] ^= 0x80 >> (bit % 8)
            stats['flip.burst'] = stats.get('flip.burst', 0) + 1
        corrupt = bytes(arr)
        bytepos = pos // 8
        # where did it land (by the layout of the clean encoding)
        if dec0['primary']['range'][0] <= bytepos < dec0['primary']['range'][1]:
            stats['flip.in_primary'] = stats.get('flip.in_primary', 0) + 1
        if dec0['blocks'][-1]['range'][0] <= bytepos < dec0['blocks'][-1]['range'][1]:
            stats['flip.in_payload_block'] = stats.get('flip.in_payload_block', 0) + 1
        for (where, span) in _crc_spans(dec0):
            if span[0] <= bytepos < span[1]:
                stats['flip.in_' + where] = stats.get('flip.in_' + where, 0) + 1
        try:
            cdec = rfc9171.decode_bundle(corrupt)
            bad = [blk for blk in [cdec['primary']] + cdec['blocks'] if not blk['crc_ok']]
            klass = 'crc_mismatch' if bad else 'crc_still_valid'
        except rfc9171.Malformed:
            klass = 'malformed'
        # requirement applies when the flip touched a CRC-protected block (a CRC detects
        # every single-bit error and every burst up to its width)
        touched = {pos // 8} if kind == 'mask' else set(range(pos // 8, (pos + width - 1) // 8 + 1))
        protected = False
        for blk in [dec0['primary']] + dec0['blocks']:
            if blk['crc_type'] != 0 and touched & set(range(blk['range'][0], blk['range'][1])):
                protected = True
        if not protected:
            klass = 'unprotected'
        stats['class.' + klass] = stats.get('class.' + klass, 0) + 1
        stats['evals'] += 1
        run.keys.append(bc.digest((plan['pri_crc'], plan['pay_crc'], plan['blocks'], plan['pay_len'], plan['route'], kind, pos, width)))
        if kind == 'mask':
            where = 'octet %d changed from 0x%02x to 0x%02x in a %d-octet bundle [%s]' % (pos // 8, clean[pos // 8], corrupt[pos // 8], len(clean), klass)
        else:
            where = '%s at bit %d (+%d) of %d-octet bundle [%s]' % (kind, pos, width, len(clean), klass)
        if klass == 'unprotected':
            # no requirement; such a copy may be accepted under an arbitrary identity and would
            # contaminate the identities used by later flips
            continue
        # 1. corrupt copy
        mark = _mark(har)
        har.receive('n1', corrupt)
        har.settle()
        (dels, outs) = _observed(har, mark)
        if klass == 'crc_still_valid':
            # impossible for an error a CRC is guaranteed to detect: the oracle itself would be wrong
            raise AssertionError('reference CRC accepted a corrupted protected block: %s' % where)
        if klass in ('malformed', 'crc_mismatch'):
            if dels:
                run.viols.append(('input', 'delivered-corrupt-' + klass, 'corrupted bundle was delivered: %s' % where))
                return
            if outs:
                what = 'report' if _is_admin_out(outs[0]['data']) else 'forward'
                run.viols.append(('input', '%s-for-corrupt-%s' % (what, klass), 'corrupted bundle caused a %s: %s' % (what, where)))
                return
        # 2. clean copy: processed exactly once
        mark = _mark(har)
        rec = har.receive('n1', clean)
        har.settle()
        (dels, outs) = _observed(har, mark)
        clean_outs.extend(outs)
        fwd = [out for out in outs if not _is_admin_out(out['data'])]
        same_ident = klass == 'unprotected'
        if not same_ident:
            if plan['route'] == 'deliver' and len(dels) != 1:
                run.viols.append(('input', 'clean-copy-not-delivered', 'after a dropped corrupt copy the clean bundle was delivered %d times (%s); recv error %s' % (
                    len(dels), where, rec['error'])))
                return
            if plan['route'] == 'forward' and len(fwd) != 1:
                run.viols.append(('input', 'clean-copy-not-forwarded', 'after a dropped corrupt copy the clean bundle was forwarded %d times (%s); recv error %s' % (
                    len(fwd), where, rec['error'])))
                return
        # 3. duplicate of the clean copy: nothing
        mark = _mark(har)
        har.receive('n1', clean)
        har.settle()
        (dels, outs) = _observed(har, mark)
        if dels or outs:
            run.viols.append(('input', 'duplicate-processed', 'a repeated clean bundle was acted on again (%s)' % where))
            return
    # output half: everything transmitted on behalf of well-formed input
    stats['out.bundles_checked'] = len(clean_outs)
    run.viols.extend(bc.check_output_crcs(clean_outs))


def judge(run):
    return run.viols


def describe(run):
    counters = dict(run.wld.counters)
    counters.update({key: val for (key, val) in run.stats.items() if key != 'evals'})
    plan = run.plan
    sample = dict(route=plan['route'], pri_crc=plan['pri_crc'], pay_crc=plan['pay_crc'], blocks=plan['blocks'], pay_len=plan['pay_len'],
                  clean_hex=base_bundle(plan, 1000).hex(), flips=run.stats['evals'])
    return dict(nontrivial=True, keys=run.keys, evals=run.stats['evals'], sim_us=run.wld.now, steps=run.wld.steps, capped=run.wld.capped,
                counters=counters, sample=sample)
