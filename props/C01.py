''' C01 - TCPCL delivers every queued bundle exactly once, intact, in order.
Engine E1 (two real agents over simulated TCP). DESIGN 5/C01.
'''
from scenarios import tcpcl_pair
from props import tcpcl_common as tc

ID = 'C01'
LEVEL = 'exploration'
RULE = ('seeded plans: per side 0-5 bundles with boundary-biased lengths, segment MRU / initial size / CHUNK_SIZE / '
        'socket capacity drawn per run, send calls before and after establishment, pops and queries at drawn times; the '
        'schedule chooser decides node interleaving, CPU cost, TCP chunking, latency, short writes. A run is non-trivial '
        'when at least one bundle was delivered or segment written; a fifth of the runs negotiate a keepalive interval of 1-2 s and stall the link or one process for 1.2-4 s while transfers run (safety clauses only, the stalls heal); distinct = distinct blake2b digests of the full event history.')
COMPONENTS = tc.COMPONENTS
PROBES = ('tcp.chunked', 'tcp.short_write', 'tcp.eagain', 'bundles.delivered', 'probe.zero_length', 'probe.multi_segment',
          'probe.send_before_established', 'fault.stall', 'fault.slow', 'wire.KEEPALIVE')
ASSUMPTIONS = [
    'kernel TCP is modelled as a reliable FIFO byte pipe with bounded buffers (dsim.net)',
    'GLib dispatch rules as in dsim.world.iterate (checked against real GLib in selftest)',
    'liveness bound: every queued bundle delivered and acknowledged within the 60 s simulated horizon after the last operation',
]
CHUNK = 10


def gen(ch, tier):
    prof = dict(min_one=True, backpressure=True, max_bundles=5, liveness=True,
                big=65536 if tier == 'quick' else 262144, max_segments=300 if tier == 'quick' else 800)
    # generator restriction for masking (DESIGN 7.1): zero-length bundles only in a share of runs
    prof['allow_zero'] = ch.coin('allow0', 1, 8)
    prof['modulate'] = ch.coin('modulate', 1, 3)
    plan = tcpcl_pair.gen_plan(ch, prof)
    if ch.coin('keepalive', 1, 5):
        # keepalives on both sides (no idle time) and a stall or a busy process that lasts longer than the interval while transfers run:
        # timer-driven messages get queued next to half-written segments. Stalls heal; with faults in the plan only the safety clauses apply.
        for side in ('A', 'P'):
            plan['cfg'][side]['keepalive_time'] = ch.choice(side + '.ka', (1, 1, 2))
        for _ in range(1 + ch.pick('ka.nflt', 2)):
            flt = dict(kind=ch.choice('ka.kind', ('stall', 'stall', 'slow')), dur=ch.choice('ka.dur', (1200000, 2500000, 4000000)))
            if flt['kind'] == 'stall':
                flt['dir'] = ch.choice('ka.dir', (None, 'a2b', 'b2a'))
            else:
                flt['node'] = ch.choice('ka.node', ('A', 'P'))
            if ch.coin('ka.place', 2, 3):
                flt['after'] = ['tcp-send', ch.choice('ka.side', ('A', 'P')), 3 + ch.pick('ka.nth', 30)]
                flt['delay'] = ch.choice('ka.delay', (0, 30, 3000))
            else:
                flt['t'] = 1000 * ch.pick('ka.t', 3000)
            plan['faults'].append(flt)
        plan['keepalive_stall'] = True
    if ch.coin('many', 1, 8):
        # a dozen more small bundles from one side and a consumer that only collects at the end: transfer ids reach two
        # digits while the earlier ones are still waiting in the receive queue
        side = ch.choice('many.side', ('A', 'P'))
        tag = 1 + max([op.get('tag', 0) for op in plan['ops']] + [0])
        for ix in range(12):
            plan['ops'].append(dict(t=100000 + 15000 * ix + ch.pick('many.t', 10000), node=side, op='send', len=ch.choice('many.len', (1, 7, 150)), tag=tag + ix))
        plan['ops'] = [op for op in plan['ops'] if op['op'] not in ('pop', 'popdup')]
        plan['ops'] = sorted((op for op in plan['ops'] if 't' in op), key=lambda op: op['t']) + [op for op in plan['ops'] if 't' not in op]
        plan['many'] = True
    return plan


def execute(plan, sched, verbose=False):
    return tcpcl_pair.run_plan(plan, sched, verbose)


def judge(run):
    obs = tc.Obs(run)
    run.obs = obs
    viols = tc.check_delivery(obs, need_liveness=tc.plan_is_graceful_open(run.plan))
    return viols


def describe(run):
    obs = getattr(run, 'obs', None) or tc.Obs(run)
    extra = {}
    lens = [op['len'] for op in run.plan['ops'] if op['op'] == 'send']
    if 0 in lens:
        extra['probe.zero_length'] = 1
    segs = {}
    for (_s, side, msg) in obs.merged:
        if msg['kind'] == 'XFER_SEGMENT':
            segs[(side, msg['transfer_id'])] = segs.get((side, msg['transfer_id']), 0) + 1
    if any(val > 1 for val in segs.values()):
        extra['probe.multi_segment'] = 1
    if any(op['op'] == 'send' and op['t'] < 300 for op in run.plan['ops']):
        extra['probe.send_before_established'] = 1
    return tc.describe(obs, extra)
