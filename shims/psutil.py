''' Shim for ``psutil``: interface enumeration from the simulated world. '''
import collections
import socket

AF_LINK = getattr(socket, 'AF_PACKET', 17)
snicaddr = collections.namedtuple('snicaddr', ['family', 'address', 'netmask', 'broadcast', 'ptp'])


def net_if_addrs():
    from dsim import world as _w
    wld = _w._WORLD
    out = {}
    if wld is None or wld.cur is None:
        return out
    net = wld.net
    ifaces = net.prof.get('ifaces', {}).get(wld.cur.host, {})
    for (name, hwaddr) in sorted(ifaces.items()):
        text = ':'.join('%02x' % byte for byte in hwaddr)
        items = [snicaddr(AF_LINK, text, None, 'ff:ff:ff:ff:ff:ff', None)]
        addr = net.names.get(wld.cur.host)
        if addr:
            items.append(snicaddr(socket.AF_INET, addr, '255.255.255.0', None, None))
        out[name] = items
    return out
