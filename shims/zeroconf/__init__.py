''' Import-time stub for ``zeroconf``: nothing is advertised or browsed. '''
import enum


class Zeroconf:

    def __init__(self, *_args, **_kwargs):
        pass

    def register_service(self, *_args, **_kwargs):
        pass

    def unregister_service(self, *_args, **_kwargs):
        pass

    def get_service_info(self, *_args, **_kwargs):
        return None

    def close(self):
        pass


class ServiceInfo:

    def __init__(self, *args, **kwargs):
        self.args = args
        self.kwargs = kwargs


class ServiceBrowser:

    def __init__(self, *_args, **_kwargs):
        pass

    def cancel(self):
        pass


class ServiceStateChange(enum.Enum):
    Added = 1
    Removed = 2
    Updated = 3
