''' Import-time stub for ``ifaddr``. '''


def get_adapters():
    return []
