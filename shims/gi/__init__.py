''' Simulator-owned stand-in for PyGObject (see /verif/dsim/glibmod.py). '''


def require_version(*_args, **_kwargs):
    return None
