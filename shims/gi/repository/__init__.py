from dsim import glibmod as GLib  # noqa: F401
