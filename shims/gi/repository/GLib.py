from dsim.glibmod import *  # noqa: F401,F403
