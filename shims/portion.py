''' Shim for ``portion`` (not installable offline): unions of integer
intervals, covering exactly the API surface the repository uses:

continuous API (module level): closedopen, closed, singleton, empty, |, &, ==,
``in``, iteration over atomic intervals (.lower/.upper), iterate(step=1),
Interval; discrete API: AbstractDiscreteInterval (_step=1) + create_api(cls).

All bounds in the repository are integers, so every interval is normalised to
a sorted list of half-open integer ranges [lo, hi). A discrete closed [a, b]
is [a, b+1). Property-tested against a set-of-integers model in
selftest/fidelity_portion.py. '''


class Interval:
    #: True for discrete integer intervals (bounds reported inclusive)
    _discrete = False

    def __init__(self, ranges=()):
        self._ranges = self._norm(ranges)

    @staticmethod
    def _norm(ranges):
        items = sorted((int(lo), int(hi)) for (lo, hi) in ranges if hi > lo)
        out = []
        for (low, high) in items:
            if out and low <= out[-1][1]:
                if high > out[-1][1]:
                    out[-1] = (out[-1][0], high)
            else:
                out.append((low, high))
        return tuple(out)

    def _make(self, ranges):
        new = type(self).__new__(type(self))
        new._ranges = self._norm(ranges)
        return new

    # -- set algebra ------------------------------------------------------
    def __or__(self, other):
        if not isinstance(other, Interval):
            return NotImplemented
        return self._make(self._ranges + other._ranges)

    __ror__ = __or__

    def __and__(self, other):
        out = []
        for (alo, ahi) in self._ranges:
            for (blo, bhi) in other._ranges:
                low = max(alo, blo)
                high = min(ahi, bhi)
                if high > low:
                    out.append((low, high))
        return self._make(out)

    def __sub__(self, other):
        out = list(self._ranges)
        for (blo, bhi) in other._ranges:
            nxt = []
            for (alo, ahi) in out:
                if bhi <= alo or blo >= ahi:
                    nxt.append((alo, ahi))
                else:
                    if alo < blo:
                        nxt.append((alo, blo))
                    if bhi < ahi:
                        nxt.append((bhi, ahi))
            out = nxt
        return self._make(out)

    def __eq__(self, other):
        if not isinstance(other, Interval):
            return NotImplemented
        return self._ranges == other._ranges

    def __ne__(self, other):
        res = self.__eq__(other)
        return res if res is NotImplemented else not res

    def __hash__(self):
        return hash(self._ranges)

    def __contains__(self, item):
        if isinstance(item, Interval):
            return (item - self).empty
        return any(low <= item < high for (low, high) in self._ranges)

    @property
    def empty(self):
        return not self._ranges

    @property
    def atomic(self):
        return len(self._ranges) <= 1

    def __len__(self):
        return len(self._ranges)

    def __iter__(self):
        for rng in self._ranges:
            yield self._make([rng])

    def __getitem__(self, index):
        return self._make([self._ranges[index]])

    @property
    def lower(self):
        if not self._ranges:
            return float('inf')
        return self._ranges[0][0]

    @property
    def upper(self):
        if not self._ranges:
            return float('-inf')
        return self._ranges[-1][1] - (1 if self._discrete else 0)

    @property
    def enclosure(self):
        if not self._ranges:
            return self._make([])
        return self._make([(self._ranges[0][0], self._ranges[-1][1])])

    def __repr__(self):
        if not self._ranges:
            return '()'
        if self._discrete:
            return ' | '.join('[%d,%d]' % (low, high - 1) if high - 1 > low else '[%d]' % low for (low, high) in self._ranges)
        return ' | '.join('[%d,%d)' % rng for rng in self._ranges)

    def _values(self):
        for (low, high) in self._ranges:
            yield from range(low, high)


class AbstractDiscreteInterval(Interval):
    _discrete = True
    _step = 1


class _Api:

    def __init__(self, cls):
        self._cls = cls

    def _new(self, ranges):
        obj = self._cls.__new__(self._cls)
        obj._ranges = Interval._norm(ranges)
        return obj

    def empty(self):
        return self._new([])

    def closedopen(self, low, high):
        return self._new([(low, high)])

    def closed(self, low, high):
        if not self._cls._discrete:
            raise NotImplementedError('continuous closed() with integer shim')
        return self._new([(low, high + 1)])

    def singleton(self, value):
        if not self._cls._discrete:
            raise NotImplementedError('continuous singleton() with integer shim')
        return self._new([(value, value + 1)])

    def open(self, low, high):
        if not self._cls._discrete:
            raise NotImplementedError('continuous open() with integer shim')
        return self._new([(low + 1, high)])

    def openclosed(self, low, high):
        if not self._cls._discrete:
            raise NotImplementedError('continuous openclosed() with integer shim')
        return self._new([(low + 1, high + 1)])

    def iterate(self, interval, step=1, **_kwargs):
        return iterate(interval, step)


def create_api(cls, **_kwargs):
    return _Api(cls)


_CONT = _Api(Interval)
empty = _CONT.empty
closedopen = _CONT.closedopen


def closed(low, high):
    raise NotImplementedError('continuous closed() is not used by the repository')


def singleton(value):
    raise NotImplementedError('continuous singleton() is not used by the repository')


def iterate(interval, step=1, **_kwargs):
    ''' Values of the interval; an open upper bound is excluded. '''
    if step != 1:
        raise NotImplementedError('only step=1')
    return interval._values()
