''' Import-time stub for ``dtls`` (python3-dtls): DTLS is never enabled in simulation. '''
raise ImportError('dtls is not available inside the simulator')
