''' Shim for ``certvalidator`` (installed copy cannot be imported here, see
DESIGN 1.2). Checks with ``cryptography``: chain from the end entity through
the given intermediates to a trust root (signatures), validity at ``moment``,
key usage and extended key usage. Declared as a stub in the evidence files. '''
import datetime

from cryptography import x509
from cryptography.hazmat.primitives.asymmetric import ec, padding, rsa
from cryptography.exceptions import InvalidSignature


class PathValidationError(Exception):
    pass


class InvalidCertificateError(PathValidationError):
    pass


class PathBuildingError(PathValidationError):
    pass


def _load(data):
    if isinstance(data, x509.Certificate):
        return data
    return x509.load_der_x509_certificate(bytes(data))


def _signed_by(cert, issuer):
    pub = issuer.public_key()
    try:
        if isinstance(pub, ec.EllipticCurvePublicKey):
            pub.verify(cert.signature, cert.tbs_certificate_bytes, ec.ECDSA(cert.signature_hash_algorithm))
        elif isinstance(pub, rsa.RSAPublicKey):
            pub.verify(cert.signature, cert.tbs_certificate_bytes, padding.PKCS1v15(), cert.signature_hash_algorithm)
        else:
            return False
        return True
    except InvalidSignature:
        return False


class ValidationContext:

    def __init__(self, trust_roots=None, other_certs=None, moment=None, **_kwargs):
        self.trust_roots = [_load(item) for item in (trust_roots or [])]
        self.other_certs = [_load(item) for item in (other_certs or [])]
        self.moment = moment


class CertificateValidator:

    def __init__(self, end_entity_cert, intermediate_certs=None, validation_context=None):
        self._ee = _load(end_entity_cert)
        self._inter = [_load(item) for item in (intermediate_certs or [])]
        self._ctx = validation_context or ValidationContext()

    def _check_time(self, cert):
        moment = self._ctx.moment
        if moment is None:
            return
        if moment.tzinfo is not None:
            moment = moment.astimezone(datetime.timezone.utc).replace(tzinfo=None)
        if moment < cert.not_valid_before or moment > cert.not_valid_after:
            raise InvalidCertificateError('certificate is not valid at %s' % moment)

    def _build_path(self):
        pool = self._inter + self._ctx.other_certs
        cur = self._ee
        path = [cur]
        for _ in range(8):
            self._check_time(cur)
            for root in self._ctx.trust_roots:
                if cur.issuer == root.subject and _signed_by(cur, root):
                    self._check_time(root)
                    return path + [root]
            nxt = None
            for cand in pool:
                if cand is not cur and cur.issuer == cand.subject and _signed_by(cur, cand):
                    nxt = cand
                    break
            if nxt is None:
                break
            cur = nxt
            path.append(cur)
        raise PathBuildingError('unable to build a validation path to a trust root')

    def validate_usage(self, key_usage, extended_key_usage=None, extended_optional=False):
        path = self._build_path()
        try:
            kuse = self._ee.extensions.get_extension_for_class(x509.KeyUsage).value
        except x509.ExtensionNotFound:
            kuse = None
        names = {'digital_signature': 'digital_signature', 'key_cert_sign': 'key_cert_sign', 'key_agreement': 'key_agreement',
                 'key_encipherment': 'key_encipherment', 'non_repudiation': 'content_commitment'}
        if kuse is not None:
            for need in key_usage or ():
                if not getattr(kuse, names[need]):
                    raise InvalidCertificateError('key usage %s is not allowed' % need)
        if extended_key_usage:
            try:
                ekus = set(oid.dotted_string for oid in self._ee.extensions.get_extension_for_class(x509.ExtendedKeyUsage).value)
            except x509.ExtensionNotFound:
                ekus = None
            if ekus is None:
                if not extended_optional:
                    raise InvalidCertificateError('extended key usage is required')
            elif not set(extended_key_usage) <= ekus:
                raise InvalidCertificateError('extended key usage %s is not allowed' % sorted(extended_key_usage))
        return path

    def validate_tls(self, _hostname):
        return self._build_path()
