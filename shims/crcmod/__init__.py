''' Shim for ``crcmod`` (not installable offline): table-driven reflected CRCs
for the two predefined algorithms the repository uses. Check values are
asserted at import. The C08 oracle uses a different (bitwise) implementation
in ref/crc.py. '''
from . import predefined  # noqa: F401
