def _table(poly_reflected):
    table = []
    for byte in range(256):
        crc = byte
        for _ in range(8):
            crc = (crc >> 1) ^ poly_reflected if crc & 1 else crc >> 1
        table.append(crc)
    return table


_DEFS = {
    # name: (reflected polynomial, init, xorout, mask)
    'x-25': (0x8408, 0xFFFF, 0xFFFF, 0xFFFF),
    'crc-32c': (0x82F63B78, 0xFFFFFFFF, 0xFFFFFFFF, 0xFFFFFFFF),
}


def mkPredefinedCrcFun(name):
    (poly, init, xorout, mask) = _DEFS[name]
    table = _table(poly)

    def crcfun(data, crc=None):
        reg = init if crc is None else (crc ^ xorout)
        for byte in bytes(data):
            reg = (reg >> 8) ^ table[(reg ^ byte) & 0xFF]
        return (reg ^ xorout) & mask

    return crcfun


mkCrcFun = mkPredefinedCrcFun
assert mkPredefinedCrcFun('x-25')(b'123456789') == 0x906E
assert mkPredefinedCrcFun('crc-32c')(b'123456789') == 0xE3069283
