''' Shim for ``macaddress``: the EUI48 value type as the repository uses it. '''


class HWAddress:
    ''' Base class of hardware addresses. '''


class EUI48(HWAddress):
    size = 48

    def __init__(self, value):
        if isinstance(value, EUI48):
            self._val = value._val
        elif isinstance(value, (bytes, bytearray)):
            if len(value) != 6:
                raise ValueError('EUI48 needs 6 octets')
            self._val = bytes(value)
        elif isinstance(value, int):
            self._val = value.to_bytes(6, 'big')
        elif isinstance(value, str):
            text = value.replace('-', ':').replace('.', '')
            parts = text.split(':') if ':' in text else [text[ix:ix + 2] for ix in range(0, len(text), 2)]
            if len(parts) != 6:
                raise ValueError('%r cannot be parsed as EUI48' % value)
            self._val = bytes(int(part, 16) for part in parts)
        else:
            raise TypeError('cannot make EUI48 from %r' % type(value))

    def __bytes__(self):
        return self._val

    def __int__(self):
        return int.from_bytes(self._val, 'big')

    def __str__(self):
        return '-'.join('%02X' % byte for byte in self._val)

    def __repr__(self):
        return 'EUI48(%r)' % str(self)

    def __eq__(self, other):
        return isinstance(other, EUI48) and self._val == other._val

    def __hash__(self):
        return hash(self._val)

    def __lt__(self, other):
        return self._val < other._val


MAC = EUI48
