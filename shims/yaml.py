''' Import-time stub: the simulator builds Config objects directly. '''


def safe_load(_stream):
    raise NotImplementedError('yaml is a stub inside the simulator')


def safe_dump(*_args, **_kwargs):
    raise NotImplementedError('yaml is a stub inside the simulator')
