#!/usr/bin/env python3-vt
''' Regenerates MANIFEST.json from the property modules that exist. '''
import json
import os
import subprocess
import sys

VERIF = os.path.dirname(os.path.abspath(__file__))
sys.path.insert(0, VERIF)

TEXT = {
    'C01': ('exploration', 'E1 tcpcl_pair', 'seeded schedule/fault search; FIFO reference model + wire re-decode; bounded liveness',
            'Two real tcpcl agents run under a seeded simulator that decides interleaving, TCP chunking, latency, short writes and '
            'back-pressure; every run is judged against a per-direction FIFO model, on D-Bus signals, popped bodies and an independent '
            're-decode of the wire; a share of the runs negotiate keepalives and stall the link or a process for longer than the interval while transfers run. Sampling, not proof: the quantifier (all schedules x sizes) is infinite.', '5/C01'),
    'C04': ('exploration', 'E1 tcpcl_pair', 'seeded schedule/fault search; RFC 9174 grammar automaton over wire taps',
            'Both byte streams of every simulated connection (including runs with termination, timers, stalls, resets, kills) are decoded by an '
            'independent RFC 9174 decoder and checked by a per-endpoint grammar automaton.', '5/C04'),
    'C09': ('exploration', 'E1 tcpcl_pair', 'seeded search over termination/close/fault points; history oracle + bounded liveness',
            'terminate/shutdown/close and peer death (FIN, RST, black-hole) are placed on history triggers inside transfers; oracle checks '
            'completion of in-progress transfers, SESS_TERM count and REPLY flag, reporting of unstarted transfers, and that both contacts '
            'close within the horizon; a share of the runs faces a conforming scripted peer that waits for the agent to close, with short writes on the agent\'s last messages. A fifth of the runs open two contacts between the same agents and shut the agent down (or terminate one contact, then possibly shut the agent down while that contact is still ending, or before a contact is established) while the other is busy.', '5/C09'),
    'C14': ('exploration', 'E1 tcpcl_pair', 'seeded search on virtual time; negotiated values vs reference decode; timer deadlines on the wire',
            'Keepalive/idle/MRU pairs and traffic times are drawn; the simulator owns the clock so 65535 s timers cost nothing; KEEPALIVE spacing, '
            'idle-timeout SESS_TERM and closing of a silent terminating endpoint are judged on the wire tap against virtual time; a share of the stall runs has bounded socket buffers, so that a writer meets EAGAIN across keepalive deadlines and the cadence must be back once the stall is over.', '5/C14'),
    'C18': ('exploration', 'E1 tcpcl_pair + E2 scripted peer + E6 udpcl_pair + E5f full stack', 'seeded interleaving of D-Bus calls with protocol progress; marshalling model + sequential queue/idle model',
            'Every signal emission and method return is marshalled against its declared signature by a model of dbus-python checked against the real '
            'binding; queue, pop, idle and connection-list answers are compared with a sequential model at every call; a scripted peer adds refusals and back-pressure, '
            'file-based transfers and IPv6 hosts are included; the full-stack engines put real bp agents with the real bp.cla UDPCL / TCPCL adaptors in front of real CL agents (sessions opened on demand, pop on the finished signal, a session ended by a user in between); a storage fault makes recv_bundle_pop_file fail (the transfer has to stay queued), and a foreign UDPCL peer announces Sender Listen intervals over the whole unsigned range.', '5/C18'),
    'C07': ('exploration', 'E2 tcpcl_stream', 'seeded + windowed-exhaustive search over cut patterns of the TCP stream; reference decode of every delivered prefix',
            'One real agent reads a legal peer stream produced by the independent encoder; the variable is where the stream is cut into socket reads '
            '(single cuts, dribble, message boundaries +-1, random, all patterns over a 10-octet window). After each read the handled messages must '
            'equal the reference decode of the delivered prefix and the receive buffer the undecoded tail, and the endpoint may not hang up in the middle of a valid stream.', '5/C07'),
    'C15': ('exploration', 'E4 tcpcl_tls', 'seeded search over the configuration x certificate table with handshake-failure fault; independent policy function',
            'Two real agents over the TLS stub with real X.509 certificates; per endpoint the outcome predicted by ref/tls_policy.py (written from the '
            'statement) is compared with wire, state signals, is_secure() and authn fields; decision-cell coverage is reported.', '5/C15'),
    'C17': ('exploration', 'E3 tcpcl_adversary', 'seeded search over state-hostile peer scripts; no-escape / answered / no-mixing / own-transfers oracles',
            'One real agent with own transfers faces a peer that sends well-formed messages in the wrong state; checks that no callback escapes with an '
            'exception, listed message classes draw MSG_REJECT / SESS_TERM / close, no mixed data is delivered, own transfers complete and a later '
            'well-formed transfer is still processed.', '5/C17'),
    'C03': ('fault_enumeration', 'E5 bp_net (source + MITM link + destination)', 'enumeration of single-bit corruption and field rewrites in flight, classified by an independent AAD / MAC construction',
            'The real source applies BIBs (COSE_Mac0, or COSE_Sign1 with an x5chain from a deterministic test PKI) through its transmit chain (or a foreign source built by ref/bpsec_cose.py covers other AAD scopes, or two integrity blocks of two security sources); every bit of a window '
            'of the encoding and every listed field is altered in flight, with CRC fix-up so the change reaches the verifier; the reference decoder classifies each '
            'altered copy as covered / surely-uncovered / other so the oracle is sound in both directions. No schedule or clock matters: the deciding dimension is the corruption fault.', '5/C03'),
    'C05': ('exploration', 'E5 bp_net (source and relay roles, twin node without MTU)', 'seeded search over sizes x MTUs x block sets x policy; reference decoder tiles the fragments',
            'Requests go through the real transmit chain (fragments leave by idle callbacks the scheduler interleaves); a twin node without MTU gives the unfragmented encoding; '
            'every output is decoded independently and checked for size, tiling, identity fields, extension-block placement and CRCs.', '5/C05'),
    'C06': ('exploration', 'E5 bp_net (destination role)', 'seeded search over fragmentations x arrival permutations, duplication and loss; interval-set model',
            'Fragments produced by the reference fragmenter (uniform, uneven, overlapping) arrive permuted, duplicated and interleaved across 1-3 originals (a quarter of which carry an integrity block over the payload that is bound to the primary block and has to verify on the reassembled bundle); after each arrival an '
            'interval model says which originals are complete and the probe application must have seen exactly those, once, with the right payload and first-fragment blocks.', '5/C06'),
    'C08': ('fault_enumeration', 'E5 bp_net', 'enumeration of single-bit flips, short bursts and single-octet CBOR-head substitutions inside CRC-protected blocks; independent bitwise CRC',
            'For each generated bundle every bit of a window (whole bundle when small) is flipped and the sequence corrupt copy / clean copy / duplicate is received by one agent; '
            '(a tenth of the runs with a payload block above 64 KiB); a flip inside a CRC-protected block must leave no trace and the clean copy must then be processed exactly once; every transmitted bundle is re-decoded and its CRCs recomputed bitwise.', '5/C08'),
    'C10': ('exploration', 'E5 bp_net', 'seeded search over routing tables x receive histories with repeats and look-alikes; seen-set + first-match model',
            'A reference model (identity seen-set, own-source filter, administrative endpoint, first matching route) predicts for every reception the exact probe deliveries and forwards; copies damaged in transit (CRC mismatch) cause nothing and do not turn the intact copy that follows into a repeat.', '5/C10'),
    'C11': ('exploration', 'E5 bp_net (relay role, clock skew)', 'seeded search over block mixes, numbering, CRC types and relay clock; received vs transmitted bytes through the reference decoder',
            'Sequences of 1-3 bundles are relayed by one node (state carried between bundles shows); the transmitted bytes are decoded independently and compared with the received encoding '
            'field by field; the age is judged against the simulated relay clock.', '5/C11'),
    'C12': ('exploration', 'E5 bp_net (destination + MITM)', 'seeded search over malformations of security blocks x key stores x acceptance; never-delivered / marked-deleted / keeps-working oracle',
            'Malformed security blocks built by ref/bpsec_cose.py are followed by clean bundles; a bad bundle must never reach the probe application, must be marked deleted with a security reason '
            '(also in the requested deletion report), and the next clean bundle must still be delivered with accepted blocks removed iff configured.', '5/C12'),
    'C13': ('exploration', 'E6 dgram_pair (udpcl)', 'seeded search over lengths x MTUs with datagram drop / duplicate / reorder / delay on virtual time; reference datagram decoder + interval model',
            'Two real UDPCL agents and a foreign reference peer exchange bundles over a simulated UDP network whose faults the chooser decides; pacing runs on the virtual clock; wire and receive queues are judged independently.', '5/C13'),
    'C16': ('fault_enumeration', 'E5 bp_net (source + MITM link + destination)', 'as C03 for confidentiality blocks: enumeration of bit flips / field rewrites, independent AES-GCM + AAD',
            'The real source encrypts through its transmit chain (one or two targets, one or two associations; also foreign bundles with two confidentiality blocks, and status reports that the policy node itself originates); the wire must hold ciphertext that the independent construction decrypts; every altered copy of ciphertext, tag, IV or '
            'authenticated context, or a wrong key, must neither be delivered nor release plaintext. Content-encryption modes: direct key (COSE_Encrypt0) and wrapped key (COSE_Encrypt with an AES-KW recipient, reference unwrap); the IV configuration of the source is varied (list, empty = random, exhausted): every bundle of the source must leave encrypted and no IV may repeat.', '5/C16'),
    'C19': ('exploration', 'E5 bp_net', 'seeded search over report flags x report-to x outcomes; reference status-report decoder',
            'All flag combinations and outcomes (deliver, forward, forward with fragmentation, forward that cannot fit or that the convergence layer refuses, delete, no route, security failure, duplicate) are run; every administrative bundle leaving the node is decoded independently and matched to its subject.', '5/C19'),
    'C20': ('exploration', 'E7 dgram_pair (btpu)', 'seeded search over lengths x MTUs with frame reorder / duplicate / delay (beyond the receive timeout) / drop; reference codec + repo codec round trip',
            'Two real BTP-U agents and a foreign peer share a simulated Ethernet; every frame is decoded by the reference codec and by the repository codec and re-encoded; delivery is demanded when each segment '
            'arrived once with gaps below the documented receive timeout (foreign transfers of one, two and interleaved segments included).', '5/C20'),
}
NOTE = ('Trusted base: the simulator models of GLib dispatch, kernel TCP/UDP sockets, D-Bus and TLS (dsim/*, each small and self-tested), '
        'the independent reference codecs under ref/, and shims for third-party modules missing in the sandbox (listed per evidence file). '
        'The agents under test are the unmodified sources of the /repo working tree.')


def main():
    checks = []
    have = sorted(name[:-3] for name in os.listdir(os.path.join(VERIF, 'props')) if name.startswith('C') and name.endswith('.py'))
    props = [json.loads(line) for line in open(os.path.join(VERIF, 'properties.jsonl'))]
    extra = {}
    if os.path.exists(os.path.join(VERIF, 'manifest_text.json')):
        extra = json.load(open(os.path.join(VERIF, 'manifest_text.json')))
    for pid in have:
        (cat, engine, tech, text, ref) = extra.get(pid) or TEXT[pid]
        checks.append(dict(
            property_id=pid,
            quick_cmd='./check %s --tier quick' % pid,
            thorough_cmd='./check %s --tier thorough' % pid,
            evidence_file='/verif/evidence/%s.json' % pid,
            replay_cmd_template='./check %s --replay {path}' % pid,
            engine=engine,
            level_claimed=dict(category=cat, text=text, design_ref='DESIGN.md section ' + ref),
            level_note=NOTE,
            technique='deterministic simulation with fault injection: ' + tech,
        ))
    na = [dict(property_id='C02', reason='pure function of its input (quantifier: inputs only): no schedule, clock, fault, peer or '
               'interleaving can change bytes(Bundle(x)); deciding it is property-based testing, not simulation (DESIGN.md section 6)')]
    for prop in props:
        if prop['id'] not in have and prop['id'] != 'C02':
            na.append(dict(property_id=prop['id'], reason='not claimed: no check built (see DESIGN.md)'))
    commits = subprocess.run(['git', '-C', '/repo', 'log', '--format=%H %s'], capture_output=True, text=True).stdout.splitlines()
    hooks = [line.split()[0] for line in commits if ' hook:' in line or line.split(' ', 1)[1].startswith('hook')]
    manifest = dict(
        version=1,
        setup_cmd='./setup.sh',
        hooks=dict(
            guard='DTN_DEMO_AGENT_VERIF',
            enable='no hooks in /repo: the simulator replaces gi.repository.GLib and dbus through sys.modules and rebinds the socket/ssl/datetime/time '
                   'attributes of the repository modules (DESIGN.md appendix A); checks import /repo/src from the working tree',
            baseline_off_cmd='cd /repo && /venv/bin/python -m pytest -ra -q -p no:cacheprovider --timeout=900 --continue-on-collection-errors',
            source_commits=hooks,
            add_only=True,
        ),
        engines=[
            dict(name='E1 tcpcl_pair', path='scenarios/tcpcl_pair.py', serves_properties=['C01', 'C04', 'C09', 'C14', 'C18'],
                 kind_free_text='two real tcpcl agents over simulated TCP + scripted D-Bus users'),
            dict(name='E2/E3 tcpcl_peer', path='scenarios/tcpcl_peer.py', serves_properties=['C07', 'C17', 'C18'],
                 kind_free_text='one real tcpcl agent facing a harness-driven peer built on the independent RFC 9174 codec'),
            dict(name='E4 tcpcl_tls', path='scenarios/tcpcl_tls.py', serves_properties=['C15'],
                 kind_free_text='E1 plus TLS stub and real X.509 certificate fixtures'),
            dict(name='E5 bp_net', path='scenarios/bp_net.py', serves_properties=['C03', 'C05', 'C06', 'C08', 'C10', 'C11', 'C12', 'C16', 'C19'],
                 kind_free_text='1-3 real bp agents (all applications, probe app at order 29, simcl adaptor) with MITM-capable links and per-node clocks'),
            dict(name='E6/E7 dgram_pair', path='scenarios/dgram_pair.py', serves_properties=['C13', 'C20', 'C18'],
                 kind_free_text='two real udpcl or btpu agents plus a foreign reference peer on a simulated datagram network'),
            dict(name='E5f full_stack', path='scenarios/full_stack.py', serves_properties=['C18'],
                 kind_free_text='on each of two hosts a real bp agent, the real bp.cla UDPCL or TCPCL adaptor and a real udpcl or tcpcl agent joined by the simulated D-Bus; hosts joined by simulated UDP / TCP'),
        ],
        checks=checks,
        not_applicable=na,
        notes='Technique: deterministic simulation with fault injection (one seeded choice tape per run; replay files under /verif/replays). '
              'Exit codes: 0 held / 1 VIOLATION / 2 harness error.',
    )
    with open(os.path.join(VERIF, 'MANIFEST.json'), 'w') as outfile:
        json.dump(manifest, outfile, indent=1)
    import jsonschema  # noqa
    jsonschema.validate(manifest, json.load(open('/root/.vp/MANIFEST.schema.json')))
    print('MANIFEST.json written: %d checks, %d not_applicable' % (len(checks), len(na)))


if __name__ == '__main__':
    main()
