''' Engine E5: 1-3 real ``bp.agent.Agent`` nodes (all six applications
registered as in production, plus a probe application at receive-chain order
29 and a ``simcl`` convergence-layer adaptor, both through the public
registries) joined by simulated datagram links. DESIGN 4/E5.
'''
import os
import random
import re

from dsim import boot
from dsim.world import World, set_world, CallbackHang
from dsim.net import Net
from dsim import dbusmod

SEC = 10**6
_REGISTERED = False
#: the harness of the run in progress (probe app and simcl report to it)
CURRENT = None


def _register():
    ''' Register the probe app and the simcl adaptor once per process. '''
    global _REGISTERED
    if _REGISTERED:
        return
    _REGISTERED = True
    boot.boot()
    import bp.app  # noqa: F401  registers the six production applications
    import bp.app.base
    import bp.cla
    from bp.util import ChainStep

    @bp.app.base.app('probe')
    class Probe(bp.app.base.AbstractApplication):
        ''' Records what reaches the application steps of the receive chain. '''

        def add_chains(self, rx_chain, tx_chain):
            rx_chain.append(ChainStep(order=29, name='probe', action=self._seen))

        def _seen(self, ctr):
            if CURRENT is not None and 'deliver' in ctr.actions:
                CURRENT.on_probe(self._agent, ctr)
            return None

    @bp.cla.cl_type('simcl')
    class SimCl(bp.cla.AbstractAdaptor):

        def __init__(self, **kwargs):
            bp.cla.AbstractAdaptor.__init__(self, **kwargs)
            self.obj_path = '/sim/cl'

        def _do_bind(self):
            return

        def send_bundle_func(self, tx_params):
            agent = self._agent

            def sender(data):
                if CURRENT is not None:
                    CURRENT.on_cl_send(agent, bytes(data), tx_params)

            return sender


def patch_bp():
    boot.boot()
    _register()
    import bp.agent
    import bp.util
    import bp.app.bpsec
    import bp.app.sand
    bp.agent.datetime = boot.DATETIME
    bp.util.datetime = boot.DATETIME
    bp.app.bpsec.datetime = boot.DATETIME
    bp.app.sand.datetime = boot.DATETIME
    bp.app.sand.socket = boot.SOCKET
    # entropy seam: initialization vectors the security code draws itself come from the seeded generator of the run
    bp.app.bpsec.os = OS_FACADE


class _OsFacade:
    ''' ``os`` as the security application sees it: ``urandom`` is deterministic (re-seeded per run), the rest is the real module. '''

    def __init__(self):
        self.rng = random.Random(0)

    def urandom(self, size):
        return bytes(self.rng.getrandbits(8) for _ in range(size))

    def __getattr__(self, name):
        return getattr(os, name)


OS_FACADE = _OsFacade()


class FakeDaemonBus(dbusmod.SimBus):
    pass


class BpHarness:

    def __init__(self, plan, sched, verbose=False):
        global CURRENT
        patch_bp()
        import bp.agent
        import bp.config
        self.bp = bp
        self.plan = plan
        self.wld = World(sched, max_steps=plan.get('max_steps', 100000), max_time_us=3600 * SEC)
        self.wld.verbose = verbose
        set_world(self.wld)
        random.seed(sched.pick('global-random', 1 << 30))
        OS_FACADE.rng = random.Random(sched.pick('entropy', 1 << 30))
        self.net = Net(self.wld, plan.get('net'))
        self.bus = {}
        self.agent = {}
        self.node = {}
        self.by_agent = {}
        #: outputs per node: list of dict(seq, t, data, to, mtu)
        self.cl_out = {}
        #: probe deliveries per node: list of dict
        self.delivered = {}
        #: receptions: list of dict(node, seq, data, actions, reason, error)
        self.receptions = []
        self.hang = False
        CURRENT = self
        for (name, ncfg) in plan['nodes'].items():
            self.net.add_host('h' + name, ncfg.get('addr', '10.1.0.%d' % (1 + len(self.node))))
            bus = dbusmod.SimBus(self.wld, 'bus' + name)
            self.bus[name] = bus
            node = self.wld.add_node(name, host='h' + name)
            node.skew_us = ncfg.get('skew_us', 0)
            self.node[name] = node
            self.cl_out[name] = []
            self.delivered[name] = []
            with self.wld.as_node(node):
                cfg = bp.config.Config(node_id=ncfg['node_id'])
                cfg._bus_conn = bus
                cfg.accept_after_verify = bool(ncfg.get('accept_after_verify', False))
                cfg.rx_route_table = [bp.config.RxRouteItem(re.compile(pat), action) for (pat, action) in ncfg.get('rx_routes', [])]
                cfg.tx_route_table = [
                    bp.config.TxRouteItem(re.compile(item[0]), item[1], 'simcl', mtu=item[2], raw_config=dict(to=item[3] if len(item) > 3 else None))
                    for item in ncfg.get('tx_routes', [])]
                cfg.apps = dict(ncfg.get('apps', {}))
                agent = bp.agent.Agent(cfg)
                agent.cl_attach('simcl', 'sim.cl.' + name)
                self.agent[name] = agent
                self.by_agent[id(agent)] = name
                self._setup_security(agent, ncfg)

    # -- security configuration (as the upstream tests do) -------------------
    def _setup_security(self, agent, ncfg):
        sec = ncfg.get('security')
        if not sec:
            return
        from pycose import algorithms
        from pycose.keys import keyops, SymmetricKey
        from bp.app.bpsec import SecAssociation, SecOperation
        ctx = agent._app['bpsec'].get_context(3)
        algs = {'HMAC256': algorithms.HMAC256, 'HMAC384': algorithms.HMAC384, 'HMAC512': algorithms.HMAC512,
                'A128GCM': algorithms.A128GCM, 'A256GCM': algorithms.A256GCM, 'A128KW': algorithms.A128KW, 'A256KW': algorithms.A256KW}
        ops = {'mac': [keyops.MacCreateOp, keyops.MacVerifyOp], 'enc': [keyops.EncryptOp, keyops.DecryptOp],
               'wrap': [keyops.WrapOp, keyops.UnwrapOp]}
        for key in sec.get('keys', []):
            kobj = SymmetricKey(k=bytes.fromhex(key['k']), optional_params={
                'KID': key['kid'].encode(), 'ALG': algs[key['alg']], 'KEY_OPS': ops[key['ops']]})
            ctx.sym_key_store[key['kid'].encode()] = kobj
        pki_cfg = sec.get('pki')
        if pki_cfg:
            # the signing path (COSE_Sign1): what CoseContext.load_config() does with sign_key_file / sign_cert_file / verify_ca_file
            from scenarios import pki
            from bp.crypto import encode_der_cert
            mat = pki.get(pki_cfg.get('source', 'dtn://s/'))
            agent._config.integrity_include_chain = bool(pki_cfg.get('include_chain', True))
            ctx._config = agent._config
            if pki_cfg.get('sign'):
                ctx._cert_chain = [mat[{'other-id': 'end_cert_other', 'no-id': 'end_cert_noid'}.get(pki_cfg.get('cert'), 'end_cert')]]
                cose_key = ctx.extract_cose_key(mat['end_key'])
                cose_key.kid = b'PEM'
                cose_key.key_ops = [keyops.SignOp]
                ctx.asym_key_store[cose_key.kid] = cose_key
            trust = pki_cfg.get('trust')
            if trust in ('right', 'wrong'):
                ctx._ca_certs = [mat['ca_cert'] if trust == 'right' else mat['wrong_ca_cert']]
                for cert in ctx._ca_certs:
                    ctx.cert_store.add_untrusted_cert(encode_der_cert(cert))
            if pki_cfg.get('knows_end_cert'):
                ctx.cert_store.add_untrusted_cert(encode_der_cert(mat['end_cert']))
        for pol in sec.get('policies', []):
            templates = []
            for tpl in pol['ops']:
                templates.append(SecOperation(
                    sec_type=tpl['type'], role='source', priv_key_id=tpl['kid'].encode(),
                    content_alg=algs[tpl['content_alg']] if tpl.get('content_alg') else None,
                    content_key=bytes.fromhex(tpl['content_key']) if tpl.get('content_key') else None,
                    content_iv=[bytes.fromhex(item) for item in tpl.get('ivs', [])]))
            ctx.sec_assoc.append(SecAssociation(
                src_pat=re.compile(pol.get('src', '.*')), dst_pat=re.compile(pol.get('dst', '.*')),
                tgt_blk_types=list(pol.get('targets', [1])), templates=templates))

    # -- callbacks from the probe app and the CL adaptor ------------------------
    def on_probe(self, agent, ctr):
        name = self.by_agent.get(id(agent))
        pri = ctr.bundle.primary
        blocks = []
        for blk in ctr.bundle.blocks:
            blocks.append((blk.type_code, blk.block_num, bytes(blk.getfieldval('btsd') or b'')))
        rec = dict(seq=self.wld.seq, t=self.wld.now, ident=tuple(ctr.bundle_ident()), destination=pri.destination,
                   flags=int(pri.bundle_flags), payload=bytes(ctr.block_num(1).getfieldval('btsd') or b''), blocks=blocks)
        self.delivered[name].append(rec)
        self.wld.log('probe-deliver', name, rec['ident'], len(rec['payload']))

    def on_cl_send(self, agent, data, tx_params):
        name = self.by_agent.get(id(agent))
        rec = dict(seq=self.wld.seq, t=self.wld.now, data=data, to=(tx_params or {}).get('to'))
        if rec['to'] == 'FAIL':
            # fault: the convergence layer refuses the bundle (what a D-Bus error from a dead CL process looks like to the agent)
            self.wld.count('fault.cl_send_error')
            self.wld.log('cl-send-error', name, len(data))
            raise RuntimeError('simulated convergence layer failure')
        self.cl_out[name].append(rec)
        self.wld.log('cl-send', name, rec['to'], data)
        hook = getattr(self, 'link_hook', None)
        if hook is not None:
            hook(name, rec)

    # -- driving -----------------------------------------------------------------------
    def receive(self, name, data):
        ''' Hand an encoded bundle to a node the way a CL adaptor does. '''
        from bp.encoding import Bundle
        from bp.util import BundleContainer
        wld = self.wld
        rec = dict(node=name, seq=wld.log('bp-recv', name, bytes(data)), data=bytes(data), actions=None, reason=None, error=None, ctr=None)
        self.receptions.append(rec)
        with wld.as_node(name):
            try:
                ctr = BundleContainer(Bundle(data))
                rec['ctr'] = ctr
                self.agent[name].recv_bundle(ctr)
                rec['actions'] = sorted(ctr.actions)
                rec['reason'] = ctr.status_reason
            except CallbackHang:
                raise
            except Exception as err:  # pylint: disable=broad-except
                rec['error'] = '%s: %s' % (type(err).__name__, str(err)[:100])
                wld.log('bp-recv-exception', name, type(err).__name__)
                wld.count('bp.recv_exception')
        return rec

    def send(self, name, ctr):
        ''' Source a bundle at a node through the public send path. '''
        wld = self.wld
        with wld.as_node(name):
            try:
                self.agent[name].send_bundle(ctr)
                return None
            except CallbackHang:
                raise
            except Exception as err:  # pylint: disable=broad-except
                wld.log('bp-send-exception', name, type(err).__name__, str(err)[:80])
                return '%s: %s' % (type(err).__name__, err)

    def settle(self, window_us=2 * SEC, max_steps=20000):
        wld = self.wld
        count = 0
        try:
            while count < max_steps:
                count += 1
                if wld.steps >= wld.max_steps:
                    wld.capped = 'steps'
                    return
                if wld._any_ready():
                    wld.step()
                    continue
                nxt = wld._peek_next()
                if nxt is None or nxt > wld.now + window_us:
                    break
                wld.step()
        except CallbackHang:
            self.hang = True
            wld.cur = None
            wld.log('callback-hang')

    def advance(self, delta_us):
        self.wld.now += int(delta_us)

    def close(self):
        global CURRENT
        CURRENT = None
