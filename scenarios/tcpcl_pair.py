''' Engine E1: two real ``tcpcl.agent.Agent`` instances (connect and
listen/accept paths) joined by simulated TCP, driven by scripted D-Bus users.

A *plan* (JSON-able dict) fixes configuration, operations and faults; the
*schedule chooser* decides interleaving, chunking, latencies and short writes.
'''
import os
import random

from dsim import boot
from dsim.world import World, Chooser, set_world, CallbackHang
from dsim.net import Net
from dsim import dbusmod

ADDR = {'A': '10.0.0.1', 'P': '10.0.0.2'}
ADDR6 = {'A': 'fd00::a:1', 'P': 'fd00::a:2'}


def addr_of(plan, side):
    return (ADDR6 if plan.get('ipv6') else ADDR)[side]
AGENT_PATH = '/org/ietf/dtn/tcpcl/Agent'
SEC = 10**6


def body_for(tag, length):
    ''' Unique, reproducible byte pattern for one bundle. '''
    return random.Random(tag).randbytes(length) if length else b''


# sizes biased to boundaries -------------------------------------------------
def pick_size(ch, label, seg, chunk, big=65536):
    kind = ch.weighted(label, (4, 3, 3, 3, 2, 2, 1))
    if kind == 0:
        return 1 + ch.pick(label + '.s', 64)
    if kind == 1:
        return max(0, seg + ch.pick(label + '.d', 3) - 1)
    if kind == 2:
        mult = 2 + ch.pick(label + '.k', 4)
        return max(0, mult * seg + ch.pick(label + '.d', 3) - 1)
    if kind == 3:
        return max(0, chunk + ch.pick(label + '.d', 3) - 1)
    if kind == 4:
        return 1 + ch.pick(label + '.m', 4096)
    if kind == 5:
        return 1 + ch.pick(label + '.l', big)
    return ch.pick(label + '.z', 2)  # 0 or 1


def gen_config(ch, side, prof):
    mru_kind = ch.weighted(side + '.mru', (3, 3, 2, 2, 1))
    if mru_kind == 0:
        mru = 1 + ch.pick(side + '.mru.s', 64)
    elif mru_kind == 1:
        mru = 1024 * (1 + ch.pick(side + '.mru.k', 10)) - ch.pick(side + '.mru.d', 2)
    elif mru_kind == 2:
        mru = 100 + ch.pick(side + '.mru.m', 3000)
    elif mru_kind == 3:
        mru = 10 * 1024**2
    else:
        mru = 2**64 - 1 if ch.pick(side + '.mru.max', 2) else 65536
    init_kind = ch.weighted(side + '.txi', (3, 3, 2))
    if init_kind == 0:
        txi = 1 + ch.pick(side + '.txi.s', 200)
    elif init_kind == 1:
        txi = 512 * (1 + ch.pick(side + '.txi.k', 32))
    else:
        txi = int(0.1 * 1024**2)
    cfg = dict(
        node_id='dtn://%s/' % side.lower(),
        keepalive_time=0,
        idle_time=0,
        segment_size_mru=mru,
        segment_size_tx_initial=txi,
        modulate_target_ack_time=None,
        enable_test=[],
        tls_enable=False,
        require_tls=None,
    )
    if prof.get('timers'):
        cfg['keepalive_time'] = ch.choice(side + '.ka', (0, 1, 2, 5, 30, 65535))
        cfg['idle_time'] = ch.choice(side + '.idle', (0, 1, 3, 10, 60))
    if prof.get('modulate') and ch.coin(side + '.mod', 1, 3):
        cfg['modulate_target_ack_time'] = ch.choice(side + '.mod.t', (1, 0.001, 0.05, 10))
    if ch.coin(side + '.pext', 1, 6):
        cfg['enable_test'] = ['private_extensions']
    return cfg


def gen_plan(ch, prof):
    ''' Draw a plan for the given profile (dict of generator switches). '''
    plan = dict(scenario='tcpcl_pair', prof=dict(prof))
    plan['cfg'] = {'A': gen_config(ch, 'A', prof), 'P': gen_config(ch, 'P', prof)}
    plan['chunk_size'] = ch.choice('chunk', (10240, 10240, 1, 7, 64, 1000, 4096, 65536))
    netp = dict(
        tcp_capacity=ch.choice('cap', (65536, 2048, 4096, 16384, 262144)),
        short_write_16=ch.choice('shortw', (0, 0, 2, 8)) if prof.get('backpressure', True) else 0,
    )
    if not prof.get('backpressure', True):
        netp['tcp_capacity'] = 1 << 30
    plan['net'] = netp
    ops = []
    start = 0
    # connection is opened by a user call at t=0
    ops.append(dict(t=0, node='A', op='connect'))
    nbundles = {side: ch.pick(side + '.n', prof.get('max_bundles', 5) + 1) for side in ('A', 'P')}
    if prof.get('min_one') and not (nbundles['A'] or nbundles['P']):
        nbundles['A'] = 1
    tag = 1
    for side in ('A', 'P'):
        seg = min(plan['cfg'][side]['segment_size_tx_initial'],
                  plan['cfg']['P' if side == 'A' else 'A']['segment_size_mru'])
        for _ in range(nbundles[side]):
            size = pick_size(ch, side + '.len', seg, plan['chunk_size'], prof.get('big', 65536))
            size = min(size, prof.get('max_segments', 600) * seg, prof.get('max_len', 1 << 20))
            if plan['chunk_size'] < 1000:
                # the receiver re-parses its buffer per read: keep reads-per-message bounded
                size = min(size, plan['chunk_size'] * 300)
            if size == 0 and not prof.get('allow_zero', True):
                size = 1
            when = ch.weighted(side + '.when', (3, 3, 2))
            if when == 0:
                tval = start + ch.pick(side + '.t', 2000)  # likely before establishment
            elif when == 1:
                tval = start + 1000 * ch.pick(side + '.t', 200)
            else:
                tval = start + SEC * ch.pick(side + '.t', 5) + ch.pick(side + '.tu', 1000)
            ops.append(dict(t=tval, node=side, op='send', len=size, tag=tag))
            if ch.coin(side + '.file', 1, 6):
                # through send_bundle_file: the agent reads the bundle from the file system as it goes
                ops[-1]['via'] = 'file'
            tag += 1
    npops = ch.pick('npop', 4)
    for _ in range(npops):
        ops.append(dict(t=1000 * ch.pick('pop.t', 6000), node=ch.choice('pop.n', ('A', 'P')), op='pop'))
        if ch.coin('pop.file', 1, 4):
            ops[-1]['via'] = 'file'
            if ch.coin('pop.baddisk', 1, 3):
                # storage fault: the file cannot be created (no such directory); the pop fails, the transfer has to stay
                # in the receive queue and is popped through recv_bundle_pop_data right afterwards
                ops[-1]['fault'] = 'unwritable'
    nq = ch.pick('nquery', prof.get('max_queries', 3) + 1)
    for _ in range(nq):
        ops.append(dict(t=1000 * ch.pick('q.t', 6000), node=ch.choice('q.n', ('A', 'P')),
                        op=ch.choice('q.op', ('idle', 'txq', 'rxq', 'params', 'state', 'popdup', 'idle', 'txq', 'conns', 'listen'))))
    late_busy = None
    if prof.get('terminate'):
        nterm = 1 + ch.weighted('nterm', (5, 2, 1))
        for _ in range(nterm):
            kinds = prof.get('term_kinds', ('terminate', 'terminate', 'terminate', 'shutdown', 'close'))
            top = dict(node=ch.choice('term.n', ('A', 'P')), op=ch.choice('term.k', kinds))
            if top['op'] == 'terminate':
                top['reason'] = ch.choice('term.r', prof.get('term_reasons', (0, 0, 1, 3, 5)))
            _place(ch, 'term', top, prof)
            ops.append(top)
        if ch.coin('late.send', 1, 3):
            # a bundle queued just after a side entered the ending state
            side = ch.choice('late.n', ('A', 'P'))
            if ch.coin('late.kind', 1, 2):
                trig = ['dbus-signal', side, 1, 'session_state_changed', 'ending']
            else:
                # ... or just as the peer has the last segment of one of this side's transfers, i.e. around the time the final
                # acknowledgement comes back
                trig = ['dbus-signal', 'P' if side == 'A' else 'A', 1 + ch.pick('late.nth', 3), 'recv_bundle_finished']
            ops.append(dict(node=side, op='send', len=ch.choice('late.len', (1, 100, 5000)), tag=tag,
                            after=trig, delay=ch.choice('late.delay', (0, 0, 30, 100, 300))))
            tag += 1
            if ch.coin('late.busy', 1, 2):
                # the process is busy for a moment just then: the user's call and the peer's answer are both waiting when it resumes
                late_busy = dict(kind='slow', node=side, dur=ch.choice('late.busy.dur', (2000, 30000)), after=list(trig), delay=0)
    faults = []
    if late_busy is not None:
        faults.append(late_busy)
    if prof.get('faults'):
        nflt = 1 + ch.weighted('nflt', (5, 2, 1))
        for _ in range(nflt):
            kinds = prof.get('fault_kinds', ('stall', 'stall', 'slow', 'reset', 'kill', 'blackhole'))
            flt = dict(kind=ch.choice('flt.k', kinds))
            if flt['kind'] in ('stall', 'slow'):
                flt['dur'] = ch.choice('flt.dur', (1000, 20000, 300000, 2 * SEC, 7 * SEC))
            if flt['kind'] == 'stall':
                flt['dir'] = ch.choice('flt.dir', (None, 'a2b', 'b2a'))
            if flt['kind'] in ('slow', 'kill', 'spurious'):
                flt['node'] = ch.choice('flt.n', ('A', 'P'))
            _place(ch, 'flt', flt, prof)
            faults.append(flt)
    timed = sorted((op for op in ops if 't' in op), key=lambda op: op['t'])
    plan['ops'] = timed + [op for op in ops if 't' not in op]
    # both hosts on IPv6 addresses in a share of the runs
    plan['ipv6'] = bool(prof.get('ipv6', True)) and ch.coin('ipv6', 1, 6)
    plan['faults'] = faults
    plan['horizon'] = prof.get('horizon', 60 * SEC)
    return plan


def _place(ch, label, item, prof):
    ''' Place an operation or fault at a time or on a history trigger so that
    it lands inside protocol activity (DESIGN 2.7). '''
    mode = ch.weighted(label + '.place', (3, 4, 3, 2))
    if mode == 0:
        item['t'] = 1000 * ch.pick(label + '.t', 6000)
    elif mode == 1:
        # after the n-th chunk written by one side (mid-segment, awaiting ACK, ...)
        item['after'] = ['tcp-send', ch.choice(label + '.side', ('A', 'P')), 1 + ch.pick(label + '.nth', 40)]
        item['delay'] = ch.choice(label + '.delay', (0, 0, 30, 300, 3000))
    elif mode == 2:
        member = ch.choice(label + '.sig', ('send_bundle_started', 'recv_bundle_started', 'recv_bundle_finished',
                                            'send_bundle_finished', 'recv_bundle_intermediate', 'session_state_changed'))
        item['after'] = ['dbus-signal', ch.choice(label + '.side', ('A', 'P')), 1 + ch.pick(label + '.nth', 3), member]
        item['delay'] = ch.choice(label + '.delay', (0, 0, 30, 300, 3000))
    else:
        # very early: around contact / session negotiation
        item['t'] = ch.pick(label + '.early', 1500)


_WORKDIR = None


def _cleanup_workdir():
    ''' Remove the scratch directory of the run that just ended (worker processes leave through os._exit). '''
    global _WORKDIR
    if _WORKDIR is not None:
        import shutil
        os.chdir(boot.VERIF)
        shutil.rmtree(_WORKDIR, True)
        _WORKDIR = None


def _workdir():
    ''' Scratch directory for the file-based D-Bus methods. The process changes into it, so that the paths that go
    over the bus (and into the history digest) are plain relative names. '''
    global _WORKDIR
    if _WORKDIR is None or not os.path.isdir(_WORKDIR):
        import tempfile
        _WORKDIR = tempfile.mkdtemp(prefix='verif_files_')
        os.chdir(_WORKDIR)
    return _WORKDIR


class Harness:
    ''' Builds the world for a plan, runs it, and keeps observations. '''

    def __init__(self, plan, sched, verbose=False):
        self.plan = plan
        boot.patch_tcpcl()
        import tcpcl.session
        import tcpcl.config
        import tcpcl.agent
        self.tcpcl = tcpcl
        prof = plan.get('prof', {})
        self.wld = World(sched, max_steps=prof.get('max_steps', 300000),
                         max_time_us=plan.get('horizon', 60 * SEC) * 4)
        self.wld.verbose = verbose
        set_world(self.wld)
        random.seed(sched.pick('global-random', 1 << 30))
        self.net = Net(self.wld, plan.get('net'))
        tcpcl.session.Connection.CHUNK_SIZE = plan.get('chunk_size', 10240)
        self.bus = {}
        self.agent = {}
        self.node = {}
        #: contact object path per node (first contact only)
        self.contact = {'A': None, 'P': None}
        self.opened = {'A': [], 'P': []}
        self.closed = {'A': [], 'P': []}
        #: user-side records
        self.queued = {'A': [], 'P': []}   # (seq, tid str, tag, body)
        self.popped = {'A': [], 'P': []}   # (seq, bid str, data)
        self.calls = []                    # (seq, node, op, result or ('error', text))
        self.deferred = {'A': [], 'P': []}
        self.hang = False
        self.end_time = None
        for side in ('P', 'A'):
            self.net.add_host('h' + side, addr_of(plan, side))
            self.bus[side] = dbusmod.SimBus(self.wld, 'bus' + side)
            node = self.wld.add_node(side, host='h' + side)
            self.node[side] = node
            with self.wld.as_node(node):
                cfgd = dict(plan['cfg'][side])
                cfgd['enable_test'] = set(cfgd.get('enable_test', ()))
                tls_files = cfgd.pop('tls_files', None)
                cfg = tcpcl.config.Config(**cfgd)
                if tls_files:
                    for (key, val) in tls_files.items():
                        setattr(cfg, key, val)
                cfg._bus_conn = self.bus[side]
                if side == 'P':
                    cfg.init_listen = [tcpcl.config.ListenConfig(address=addr_of(plan, 'P'), port=4556)]
                self.agent[side] = tcpcl.agent.Agent(cfg)
            self._watch(side)

    def _watch(self, side):
        bus = self.bus[side]

        def opened(path, _side=side):
            self.opened[_side].append(str(path))
            if self.contact[_side] is None:
                self.contact[_side] = str(path)
                # run ops deferred until the contact exists
                for op in self.deferred[_side]:
                    self.wld.at(self.wld.now, self.do_op, op)
                self.deferred[_side] = []

        def closed(path, _side=side):
            self.closed[_side].append(str(path))

        bus.matches.append(dict(node=None, sender=None, path=AGENT_PATH, iface=None,
                                member='connection_opened', handler=opened))
        bus.matches.append(dict(node=None, sender=None, path=AGENT_PATH, iface=None,
                                member='connection_closed', handler=closed))

    # -- user operations -------------------------------------------------
    def call(self, side, path, member, *args):
        ''' D-Bus method call by the user of ``side``; returns the value or
        ('error', exception name, text). '''
        wld = self.wld
        try:
            ret = self.bus[side].call(':sim.' + side, path, None, member, args)
        except dbusmod.DBusException as err:
            ret = ('error', err.get_dbus_name() or type(err).__name__, str(err)[:120])
        self.calls.append((wld.seq, wld.now, side, member, args if member != 'send_bundle_data' else (len(args[0]),), ret))
        return ret

    def do_op(self, op, _evt=None):
        side = op['node']
        kind = op['op']
        wld = self.wld
        if kind == 'connect':
            self.call(side, AGENT_PATH, 'connect', addr_of(self.plan, 'P'), 4556)
            return
        if kind in ('shutdown', 'stop'):
            self.call(side, AGENT_PATH, kind)
            return
        if kind == 'conns':
            self.call(side, AGENT_PATH, 'get_connections')
            return
        if kind == 'listen':
            # a second listening socket, taken down again
            self.listen_port = getattr(self, 'listen_port', 4600) + 1
            self.call(side, AGENT_PATH, 'listen', addr_of(self.plan, side), self.listen_port)
            self.call(side, AGENT_PATH, 'listen_stop', addr_of(self.plan, side), self.listen_port)
            return
        path = self.contact[side]
        if path is None:
            self.deferred[side].append(op)
            return
        if kind == 'send':
            body = body_for(op['tag'], op['len'])
            if op.get('via') == 'file':
                name = '%s_tx_%d.bin' % (side, op['tag'])
                with open(os.path.join(_workdir(), name), 'wb') as outfile:
                    outfile.write(body)
                ret = self.call(side, path, 'send_bundle_file', name)
                wld.count('user.send_file')
            else:
                ret = self.call(side, path, 'send_bundle_data', body)
            if isinstance(ret, str):
                self.queued[side].append((wld.seq, str(ret), op['tag'], body))
        elif kind == 'pop':
            ret = self.call(side, path, 'recv_bundle_get_queue')
            if isinstance(ret, list):
                for bid in ret:
                    if op.get('via') == 'file':
                        name = '%s_rx_%s_%d.bin' % (side, bid, wld.seq)
                        _workdir()
                        if op.get('fault') == 'unwritable':
                            res = self.call(side, path, 'recv_bundle_pop_file', bid, 'no-such-dir/' + name)
                            wld.count('fault.pop_file_unwritable')
                            if isinstance(res, tuple) and res and res[0] == 'error':
                                self.call(side, path, 'recv_bundle_get_queue')
                                data = self.call(side, path, 'recv_bundle_pop_data', bid)
                                if not (isinstance(data, tuple) and data and data[0] == 'error'):
                                    self.popped[side].append((wld.seq, str(bid), bytes(data)))
                            continue
                        res = self.call(side, path, 'recv_bundle_pop_file', bid, name)
                        wld.count('user.pop_file')
                        if not (isinstance(res, tuple) and res and res[0] == 'error'):
                            with open(os.path.join(_workdir(), name), 'rb') as infile:
                                self.popped[side].append((wld.seq, str(bid), infile.read()))
                        continue
                    data = self.call(side, path, 'recv_bundle_pop_data', bid)
                    if not (isinstance(data, tuple) and data and data[0] == 'error'):
                        self.popped[side].append((wld.seq, str(bid), bytes(data)))
        elif kind == 'popdup':
            ret = self.call(side, path, 'recv_bundle_get_queue')
            if isinstance(ret, list) and ret:
                bid = ret[0]
                data = self.call(side, path, 'recv_bundle_pop_data', bid)
                if not (isinstance(data, tuple) and data and data[0] == 'error'):
                    self.popped[side].append((wld.seq, str(bid), bytes(data)))
                again = self.call(side, path, 'recv_bundle_pop_data', bid)
                if not (isinstance(again, tuple) and again and again[0] == 'error'):
                    self.popped[side].append((wld.seq, str(bid), bytes(again)))
        elif kind == 'idle':
            self.call(side, path, 'is_sess_idle')
        elif kind == 'txq':
            self.call(side, path, 'send_bundle_get_queue')
        elif kind == 'rxq':
            self.call(side, path, 'recv_bundle_get_queue')
        elif kind == 'params':
            self.call(side, path, 'get_session_parameters')
        elif kind == 'state':
            self.call(side, path, 'get_session_state')
        elif kind == 'terminate':
            self.call(side, path, 'terminate', op.get('reason', 0))
        elif kind == 'close':
            self.call(side, path, 'close')
        else:
            raise ValueError('unknown op %r' % (op,))

    # -- faults ----------------------------------------------------------
    def do_fault(self, flt, _evt=None):
        wld = self.wld
        kind = flt['kind']
        if not self.net.conns:
            return
        conn = self.net.conns[0]
        if kind == 'stall':
            until = wld.now + flt['dur']
            for pipe in (conn.a2b, conn.b2a):
                if flt.get('dir') in (None, pipe.name):
                    pipe.stall_until = max(pipe.stall_until, until)
            wld.count('fault.stall')
            wld.log('fault', 'stall', flt.get('dir'), flt['dur'])
        elif kind == 'spurious':
            # the kernel reports the socket readable although nothing is there
            sock = conn.socks[0 if flt.get('node', 'A') == 'A' else 1]
            if not sock._closed and not sock.rxbuf:
                sock.spurious_in = True
                wld.log('fault', 'spurious', flt.get('node', 'A'))
        elif kind == 'blackhole':
            for pipe in (conn.a2b, conn.b2a):
                pipe.blackhole = True
            wld.count('fault.blackhole')
            wld.log('fault', 'blackhole')
        elif kind == 'reset':
            for sock in conn.socks:
                if not sock._closed:
                    sock.inject_reset()
            wld.count('fault.reset')
            wld.log('fault', 'reset')
        elif kind == 'kill':
            # the process of one side dies: kernel closes its socket (FIN)
            side = flt['node']
            node = self.node[side]
            node.alive = False
            node.sources.clear()
            for sock in conn.socks:
                if sock.node is node and not sock._closed:
                    sock.close()
            wld.count('fault.kill')
            wld.log('fault', 'kill', side)
        elif kind == 'slow':
            node = self.node[flt['node']]
            node.stall_until = max(node.stall_until, wld.now + flt['dur'])
            wld.count('fault.slow')
            wld.log('fault', 'slow', flt['node'], flt['dur'])
        else:
            raise ValueError('unknown fault %r' % (flt,))

    def _schedule(self, item, func):
        wld = self.wld
        if 'after' in item:
            (kind, node, nth) = item['after'][:3]
            extra = item['after'][3] if len(item['after']) > 3 else None
            arg = item['after'][4] if len(item['after']) > 4 else None
            state = {'n': 0}

            def pred(evt, _kind=kind, _node=node, _nth=nth, _extra=extra, _arg=arg):
                if evt[3] != _kind:
                    return False
                if _node is not None and evt[2] != _node:
                    return False
                if _extra is not None and _extra not in evt[4:]:
                    return False
                if _arg is not None and _arg not in evt[-1]:
                    return False
                state['n'] += 1
                return state['n'] == _nth

            delay = item.get('delay', 0)
            wld.add_trigger(pred, lambda evt, _item=item: wld.after(delay, func, _item))
        else:
            wld.at(item['t'], func, item)

    def run(self):
        wld = self.wld
        for op in self.plan['ops']:
            self._schedule(op, self.do_op)
        for flt in self.plan.get('faults', ()):
            self._schedule(flt, self.do_fault)
        try:
            wld.run(until_us=self.plan.get('horizon', 60 * SEC))
        except CallbackHang:
            self.hang = True
            wld.cur = None
            wld.log('callback-hang')
            return self
        # final drain by the users: pop everything still queued
        self.end_time = wld.now
        self.final_idle = {}
        for side in ('A', 'P'):
            path = self.contact[side]
            if path is None or not self.node[side].alive:
                continue
            if (side, path) in [(key[0], key[1]) for key in self.bus[side].objects]:
                self.do_op(dict(node=side, op='pop'))
                self.do_op(dict(node=side, op='idle'))
                self.final_idle[side] = self.calls[-1]
        return self


def run_plan(plan, sched, verbose=False):
    try:
        return Harness(plan, sched, verbose).run()
    finally:
        _cleanup_workdir()
