''' Deterministic little PKI for the BPSec signing path (COSE_Sign1 with
x5chain / x5t): one CA and one end-entity certificate per security source,
built from fixed private scalars with deterministic ECDSA so that the same
octets come out in every process (the certificates travel inside bundles and
therefore inside the recorded history). A second, unrelated CA serves as the
"wrong trust root". '''
import datetime

_CACHE = {}
T0 = datetime.datetime(2020, 1, 1)
OID_ON_EID = '1.3.6.1.5.5.7.8.11'
OID_EKU_BUNDLE_SECURITY = '1.3.6.1.5.5.7.3.35'


def _name(text):
    from cryptography import x509
    return x509.Name([x509.NameAttribute(x509.oid.NameOID.COMMON_NAME, text)])


def _make_ca(key, label):
    from cryptography import x509
    from cryptography.hazmat.primitives import hashes
    return (x509.CertificateBuilder().subject_name(_name(label)).issuer_name(_name(label)).public_key(key.public_key())
            .serial_number(1).not_valid_before(T0).not_valid_after(T0 + datetime.timedelta(days=36500))
            .add_extension(x509.BasicConstraints(ca=True, path_length=None), critical=True)
            .add_extension(x509.SubjectKeyIdentifier.from_public_key(key.public_key()), critical=False)
            .add_extension(x509.KeyUsage(digital_signature=False, content_commitment=False, key_encipherment=False, data_encipherment=False,
                                         key_agreement=False, key_cert_sign=True, crl_sign=True, encipher_only=False, decipher_only=False), critical=True)
            .sign(key, hashes.SHA256(), ecdsa_deterministic=True))


def _make_end(ca_key, ca_cert, end_key, node_id, serial):
    import asn1
    from cryptography import x509
    from cryptography.hazmat.primitives import hashes
    if node_id is None:
        # a certificate of the same CA that names no node at all
        sans = [x509.DNSName('host.example')]
        node_id = 'no node id'
    else:
        enc = asn1.Encoder()
        enc.start()
        enc.write(node_id.encode('ascii'), asn1.Numbers.IA5String)
        sans = [x509.OtherName(x509.oid.ObjectIdentifier(OID_ON_EID), enc.output())]
    return (x509.CertificateBuilder().subject_name(_name('end-entity %s' % node_id)).issuer_name(ca_cert.subject)
            .public_key(end_key.public_key()).serial_number(serial).not_valid_before(T0).not_valid_after(T0 + datetime.timedelta(days=36500))
            .add_extension(x509.BasicConstraints(ca=False, path_length=None), critical=True)
            .add_extension(x509.KeyUsage(digital_signature=True, content_commitment=False, key_encipherment=False, data_encipherment=False,
                                         key_agreement=False, key_cert_sign=False, crl_sign=False, encipher_only=False, decipher_only=False), critical=True)
            .add_extension(x509.SubjectAlternativeName(sans), critical=False)
            .add_extension(x509.ExtendedKeyUsage([x509.oid.ObjectIdentifier(OID_EKU_BUNDLE_SECURITY)]), critical=False)
            .add_extension(x509.SubjectKeyIdentifier.from_public_key(end_key.public_key()), critical=False)
            .add_extension(x509.AuthorityKeyIdentifier.from_issuer_public_key(ca_key.public_key()), critical=False)
            .sign(ca_key, hashes.SHA256(), ecdsa_deterministic=True))


def get(node_id='dtn://s/'):
    ''' dict(ca_key, ca_cert, end_key, end_cert, wrong_ca_cert) for a security source. '''
    if node_id in _CACHE:
        return _CACHE[node_id]
    from cryptography.hazmat.primitives.asymmetric import ec
    ca_key = ec.derive_private_key(0x1234567890ABCDEF1234567890ABCDEF, ec.SECP256R1())
    end_key = ec.derive_private_key(0x0FEDCBA987654321FEDCBA9876543211 + sum(node_id.encode()), ec.SECP256R1())
    wrong_key = ec.derive_private_key(0x777777777777777777777777777777, ec.SECP256R1())
    ca_cert = _make_ca(ca_key, 'verif test CA')
    out = dict(ca_key=ca_key, ca_cert=ca_cert, end_key=end_key, end_cert=_make_end(ca_key, ca_cert, end_key, node_id, 2),
               end_cert_other=_make_end(ca_key, ca_cert, end_key, 'dtn://mallory/', 3), end_cert_noid=_make_end(ca_key, ca_cert, end_key, None, 4),
               wrong_ca_cert=_make_ca(wrong_key, 'some other CA'))
    _CACHE[node_id] = out
    return out
