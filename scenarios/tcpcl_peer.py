''' Engines E2/E3: one real ``tcpcl.agent.Agent`` (the victim, node V) facing
a harness-driven peer (node X) that speaks through the independent RFC 9174
encoder. E2 varies how the stream is cut into reads (C07); E3 sends
state-hostile but well-formed messages (C17).
'''
import random

from dsim import boot
from dsim.world import World, set_world, CallbackHang
from dsim.net import Net, StreamSock
from dsim import dbusmod
from ref import rfc9174

ADDR = {'V': '10.0.0.1', 'X': '10.0.0.2'}
AGENT_PATH = '/org/ietf/dtn/tcpcl/Agent'
SEC = 10**6


def pkt_to_dict(pkt):
    ''' Fields of a message as the implementation decoded it. '''
    import tcpcl.contact
    import tcpcl.messages as msgs
    if isinstance(pkt, tcpcl.contact.Head):
        out = dict(kind='CONTACT', magic=bytes(pkt.magic), version=pkt.version)
        if pkt.version == 4 and pkt.payload:
            out['flags'] = int(pkt.payload.flags)
        return out
    cls = pkt.guess_payload_class(b'')
    pay = pkt.payload

    def ext_list(items):
        res = []
        for item in items or []:
            res.append(dict(flags=int(item.flags), type=item.type, value=bytes(item.payload)))
        return res

    if cls == msgs.SessionInit:
        return dict(kind='SESS_INIT', keepalive=pay.keepalive, segment_mru=pay.segment_mru,
                    transfer_mru=pay.transfer_mru, nodeid=bytes(pay.getfieldval('nodeid_data')), ext=ext_list(pay.ext_items))
    if cls == msgs.SessionTerm:
        return dict(kind='SESS_TERM', flags=int(pay.flags), reason=pay.reason)
    if cls == msgs.Keepalive:
        return dict(kind='KEEPALIVE')
    if cls == msgs.RejectMsg:
        return dict(kind='MSG_REJECT', rej_msg_id=pay.rej_msg_id, reason=pay.reason)
    if cls == msgs.TransferSegment:
        flags = int(pkt.getfieldval('flags'))
        return dict(kind='XFER_SEGMENT', flags=flags, transfer_id=pay.transfer_id,
                    ext=ext_list(pay.ext_items) if flags & 2 else [], data=bytes(pay.getfieldval('data')))
    if cls == msgs.TransferAck:
        return dict(kind='XFER_ACK', flags=int(pkt.getfieldval('flags')), transfer_id=pay.transfer_id, length=pay.length)
    if cls == msgs.TransferRefuse:
        return dict(kind='XFER_REFUSE', reason=pay.reason, transfer_id=pay.transfer_id)
    return dict(kind='UNKNOWN', msg_id=pkt.msg_id)


def msg_fields(msg):
    ''' Reference-decoder message reduced to the comparable fields. '''
    drop = ('size', 'offset', 'end', 'stamp', 'start_stamp')
    return {key: val for (key, val) in msg.items() if key not in drop}


class PeerHarness:
    ''' plan: dict(role='passive'|'active' (victim's role), cfg, chunk_size, net,
    items=[...], cuts=..., user ops ...). '''

    def __init__(self, plan, sched, verbose=False):
        self.plan = plan
        boot.patch_tcpcl()
        import tcpcl.session
        import tcpcl.config
        import tcpcl.agent
        self.tcpcl = tcpcl
        self.wld = World(sched, max_steps=plan.get('max_steps', 100000), max_time_us=3600 * SEC)
        self.wld.verbose = verbose
        set_world(self.wld)
        random.seed(sched.pick('global-random', 1 << 30))
        netp = dict(tcp_capacity=1 << 30, short_write_16=0, chunk_weights=(1, 0, 0, 0),
                    latencies=(100,), latency_weights=(1,))
        netp.update(plan.get('net') or {})
        self.net = Net(self.wld, netp)
        tcpcl.session.Connection.CHUNK_SIZE = plan.get('chunk_size', 10240)
        harness = self
        self.handled = []      # (seq, dict) messages handed to the session handler
        self.handle_errors = []

        class LoggingHandler(tcpcl.session.ContactHandler):
            ''' Subclass seam: log each message handed to the handler. '''

            def recv_message(self, pkt):
                try:
                    harness.handled.append((harness.wld.seq, pkt_to_dict(pkt)))
                except Exception as err:  # pylint: disable=broad-except
                    harness.handle_errors.append(repr(err))
                    harness.handled.append((harness.wld.seq, dict(kind='UNRENDERABLE')))
                harness.wld.log('handled', harness.handled[-1][1].get('kind'))
                return tcpcl.session.ContactHandler.recv_message(self, pkt)

        self._orig_handler = tcpcl.agent.ContactHandler
        tcpcl.agent.ContactHandler = LoggingHandler
        self.bus = dbusmod.SimBus(self.wld, 'busV')
        self.net.add_host('hV', ADDR['V'])
        self.net.add_host('hX', ADDR['X'])
        self.vnode = self.wld.add_node('V', host='hV')
        self.xnode = self.wld.add_node('X', host='hX')
        self.contact = None
        self.opened = []
        self.closed = []
        self.calls = []
        self.queued = []
        self.popped = []
        self.hang = False
        self.bus.matches.append(dict(node=None, sender=None, path=AGENT_PATH, iface=None,
                                     member='connection_opened', handler=self._opened))
        self.bus.matches.append(dict(node=None, sender=None, path=AGENT_PATH, iface=None,
                                     member='connection_closed', handler=lambda path: self.closed.append(str(path))))
        role = plan.get('role', 'passive')
        with self.wld.as_node(self.vnode):
            cfgd = dict(plan['cfg'])
            cfgd['enable_test'] = set(cfgd.get('enable_test', ()))
            cfg = tcpcl.config.Config(**cfgd)
            cfg._bus_conn = self.bus
            if role == 'passive':
                cfg.init_listen = [tcpcl.config.ListenConfig(address=ADDR['V'], port=4556)]
            self.agent = tcpcl.agent.Agent(cfg)
        # the peer's socket
        with self.wld.as_node(self.xnode):
            if role == 'passive':
                self.xsock = StreamSock(self.net)
                self.xsock.connect((ADDR['V'], 4556))
            else:
                lst = StreamSock(self.net)
                lst.bind((ADDR['X'], 4556))
                lst.listen(1)
                self.call(AGENT_PATH, 'connect', ADDR['X'], 4556)
                (self.xsock, _addr) = lst.accept()
            self.xsock.setblocking(False)
        #: pipe peer -> victim and victim -> peer
        self.to_v = self.xsock.tx
        self.from_v = self.xsock.rx
        self.sent = bytearray()          # everything the peer delivered so far
        self.vdec = rfc9174.StreamDecoder()   # decoder of the victim's output
        self.vmsgs = []
        self.settle()

    def _opened(self, path):
        self.opened.append(str(path))
        if self.contact is None:
            self.contact = str(path)

    def restore(self):
        self.tcpcl.agent.ContactHandler = self._orig_handler

    # -- user side ----------------------------------------------------------
    def call(self, path, member, *args):
        wld = self.wld
        try:
            ret = self.bus.call(':sim.V', path, None, member, args)
        except dbusmod.DBusException as err:
            ret = ('error', err.get_dbus_name() or type(err).__name__, str(err)[:120])
        self.calls.append((wld.seq, wld.now, 'V', member, args if member != 'send_bundle_data' else (len(args[0]),), ret))
        return ret

    def user_send(self, body):
        ret = self.call(self.contact, 'send_bundle_data', body)
        if isinstance(ret, str):
            self.queued.append((self.wld.seq, str(ret), body))
        return ret

    def user_pop_all(self):
        if self.contact is None:
            return
        ret = self.call(self.contact, 'recv_bundle_get_queue')
        if isinstance(ret, list):
            for bid in ret:
                data = self.call(self.contact, 'recv_bundle_pop_data', bid)
                if not (isinstance(data, tuple) and data and data[0] == 'error'):
                    self.popped.append((self.wld.seq, str(bid), bytes(data)))

    # -- peer side ----------------------------------------------------------
    def deliver(self, chunk):
        ''' Put exactly these octets into the victim's socket as one arrival. '''
        wld = self.wld
        pipe = self.to_v
        seq = wld.log('peer-send', pipe.total, bytes(chunk))
        pipe.tap.append((seq, wld.now, bytes(chunk)))
        pipe.total += len(chunk)
        self.sent += chunk
        dst = pipe.dst
        if not dst._closed and not dst.rx_err:
            dst.rxbuf += chunk
            wld.log('tcp-arrive', pipe.conn.cid, pipe.name, len(chunk))

    def settle(self, window_us=60000, max_steps=20000):
        ''' Run until nothing can happen within ``window_us`` (timers beyond
        that stay pending). '''
        wld = self.wld
        count = 0
        spin = 0
        try:
            while count < max_steps:
                count += 1
                if wld.steps >= wld.max_steps:
                    wld.capped = 'steps'
                    return
                before = len(wld.hist)
                if not wld._any_ready():
                    nxt = wld._peek_next()
                    if nxt is None:
                        break
                    if nxt > wld.now + window_us and not any(
                            node.alive and node.stall_until > wld.now and node.has_ready(node.stall_until) for node in wld.nodes.values()):
                        # only timers beyond the window are left (a node that is merely busy is waited for)
                        break
                wld.step()
                # the agent busy-polls a full socket (EAGAIN on every idle callback): that is quiescent
                # for the purposes of a scripted peer, which reads only between settles
                new = wld.hist[before:]
                if new:
                    spin = spin + 1 if all(evt[3] == 'tcp-eagain' for evt in new) else 0
                    if spin >= 10:
                        break
        except CallbackHang:
            self.hang = True
            wld.cur = None
            wld.log('callback-hang')
        self.drain_victim_output()

    def settle_all(self, max_rounds=400, **kwargs):
        ''' Settle, read what the victim wrote, and repeat until it writes nothing more (a victim that was blocked by a full
        socket buffer continues once the peer has read). '''
        for _ in range(max_rounds):
            before = self.from_v.total
            self.settle(**kwargs)
            if self.from_v.total == before or self.hang or self.wld.capped:
                break

    def advance(self, delta_us):
        ''' Let simulated time pass (timers may fire). '''
        target = self.wld.now + delta_us
        try:
            self.wld.run(until_us=target)
        except CallbackHang:
            self.hang = True
            self.wld.cur = None
            self.wld.log('callback-hang')
        self.drain_victim_output()

    def drain_victim_output(self):
        ''' Read everything the victim wrote; returns newly decoded messages. '''
        new = []
        sock = self.xsock
        while sock.rxbuf:
            data = bytes(sock.rxbuf)
            del sock.rxbuf[:]
            new.extend(self.vdec.feed(data, (self.wld.seq, self.wld.now)))
        self.vmsgs.extend(new)
        return new

    def victim_closed(self):
        return self.xsock.rx_eof or bool(self.closed)

    def victim_state(self):
        if self.contact is None:
            return None
        hdl = self.agent._path_to_handler.get(self.contact)
        return hdl
