''' Engines E6 / E7: two real ``udpcl.agent.Agent`` (or ``btpu.agent.Agent``)
instances plus a foreign reference peer on a simulated datagram network with
drop / duplicate / reorder / delay faults; pacing runs on virtual time.
'''
import random

from dsim import boot
from dsim.world import World, set_world, CallbackHang
from dsim.net import Net, DgramSock, PacketSock
from dsim import dbusmod

SEC = 10**6
UDP_ADDR = {'U1': '10.2.0.1', 'U2': '10.2.0.2', 'X': '10.2.0.9'}
MACS = {'U1': bytes.fromhex('020000000001'), 'U2': bytes.fromhex('020000000002'), 'X': bytes.fromhex('020000000009')}
ETHERTYPE_BTPU = None


def patch_udpcl():
    boot.boot()
    import udpcl.agent
    udpcl.agent.socket = boot.SOCKET
    udpcl.agent.time = boot.TIME
    udpcl.agent.datetime = boot._SimDateTime
    return udpcl


def patch_btpu():
    boot.boot()
    import btpu.agent
    btpu.agent.socket = boot.SOCKET
    btpu.agent.datetime = boot._SimDateTime
    return btpu


class DgramHarness:
    ''' plan: dict(kind='udpcl'|'btpu', cfg={...}, net={...}) '''

    def __init__(self, plan, sched, verbose=False):
        self.plan = plan
        self.kind = plan.get('kind', 'udpcl')
        self.wld = World(sched, max_steps=plan.get('max_steps', 200000), max_time_us=24 * 3600 * SEC)
        self.wld.verbose = verbose
        set_world(self.wld)
        random.seed(sched.pick('global-random', 1 << 30))
        netp = dict(plan.get('net') or {})
        netp['ifaces'] = {'h' + name: {'eth0': MACS[name]} for name in MACS}
        self.net = Net(self.wld, netp)
        self.frame_log = []
        self.net.frame_log = self.frame_log
        self.bus = {}
        self.agent = {}
        self.node = {}
        self.calls = []
        self.queued = {}
        self.popped = {}
        self.hang = False
        for name in ('U1', 'U2', 'X'):
            self.net.add_host('h' + name, UDP_ADDR[name])
        if self.kind == 'udpcl':
            mod = patch_udpcl()
            import udpcl.config
            self.path = '/org/ietf/dtn/udpcl/Agent'
        else:
            mod = patch_btpu()
            import btpu.config
            self.path = '/org/ietf/dtn/btpu/Agent'
        for name in ('U1', 'U2'):
            self.bus[name] = dbusmod.SimBus(self.wld, 'bus' + name)
            node = self.wld.add_node(name, host='h' + name)
            self.node[name] = node
            self.queued[name] = []
            self.popped[name] = []
            with self.wld.as_node(node):
                cfgd = dict(plan['cfg'].get(name, plan['cfg'].get('*', {})))
                if self.kind == 'udpcl':
                    poll_ms = cfgd.pop('poll_ms', None)
                    cfg = udpcl.config.Config(**cfgd)
                    cfg.init_listen = [udpcl.config.ListenConfig(address=UDP_ADDR[name], port=4556)]
                    if poll_ms:
                        # periodic return-path messages to the other agent: non-transfer traffic in the same conversation
                        other = 'U2' if name == 'U1' else 'U1'
                        cfg.polling = [udpcl.config.PollConfig(address=UDP_ADDR[other], port=4556, interval_ms=poll_ms)]
                    cfg._bus_conn = self.bus[name]
                    self.agent[name] = mod.agent.Agent(cfg)
                else:
                    cfg = btpu.config.Config(**cfgd)
                    cfg.init_listen = [btpu.config.ListenConfig(ifname='eth0')]
                    cfg._bus_conn = self.bus[name]
                    self.agent[name] = mod.agent.Agent(cfg)
        self.xnode = self.wld.add_node('X', host='hX')
        with self.wld.as_node(self.xnode):
            if self.kind == 'udpcl':
                self.xsock = DgramSock(self.net)
                self.xsock.bind((UDP_ADDR['X'], 4556))
            else:
                import socket as _s
                self.xsock = PacketSock(self.net, 17, _s.SOCK_RAW, 0)
                self.xsock.bind(('eth0', 0))

    # -- user side -------------------------------------------------------------
    def call(self, side, member, *args):
        wld = self.wld
        try:
            ret = self.bus[side].call(':sim.' + side, self.path, None, member, args)
        except dbusmod.DBusException as err:
            ret = ('error', err.get_dbus_name() or type(err).__name__, str(err)[:120])
        self.calls.append((wld.seq, wld.now, side, member, args if member != 'send_bundle_data' else (len(args[0]),), ret))
        return ret

    def user_send(self, side, body, params):
        ret = self.call(side, 'send_bundle_data', body, params)
        if isinstance(ret, str):
            self.queued[side].append((self.wld.seq, str(ret), body))
        return ret

    def user_pop_all(self, side):
        ret = self.call(side, 'recv_bundle_get_queue')
        out = []
        if isinstance(ret, list):
            for bid in ret:
                data = self.call(side, 'recv_bundle_pop_data', bid)
                if not (isinstance(data, tuple) and data and data[0] == 'error'):
                    self.popped[side].append((self.wld.seq, str(bid), bytes(data)))
                    out.append(bytes(data))
        return out

    def peer_send(self, data, dest):
        ''' The foreign peer X sends one datagram / frame. '''
        with self.wld.as_node(self.xnode):
            if self.kind == 'udpcl':
                self.xsock.sendto(data, (UDP_ADDR[dest], 4556))
            else:
                self.xsock.send(data)

    def run_until(self, until_us):
        try:
            self.wld.run(until_us=until_us)
        except CallbackHang:
            self.hang = True
            self.wld.cur = None
            self.wld.log('callback-hang')

    def settle(self, window_us=3 * SEC, max_steps=100000, limit_us=None):
        ''' Run until nothing is due within ``window_us``. Periodic traffic (polling) never lets that happen: with polling
        configured stop after ``limit_us`` (default 40 s, longer than the largest paced transfer takes) of simulated time. '''
        wld = self.wld
        count = 0
        if limit_us is None:
            polling = any((self.plan['cfg'].get(name) or self.plan['cfg'].get('*') or {}).get('poll_ms') for name in ('U1', 'U2'))
            limit_us = 40 * SEC if polling else 10**12
        deadline = wld.now + limit_us
        try:
            while count < max_steps and wld.now <= deadline:
                count += 1
                if wld.steps >= wld.max_steps:
                    wld.capped = 'steps'
                    return
                if wld._any_ready():
                    wld.step()
                    continue
                nxt = wld._peek_next()
                if nxt is None or nxt > wld.now + window_us:
                    break
                wld.step()
        except CallbackHang:
            self.hang = True
            wld.cur = None
            wld.log('callback-hang')

    def wire(self, kind_evt='udp-send'):
        ''' Datagrams as sent: list of (seq, node, src, dst, data). '''
        return [(evt[0], evt[2], evt[4], evt[5], evt[6]) for evt in self.wld.hist if evt[3] == kind_evt]
