''' Engine E5f: on each of two hosts a real ``bp.agent.Agent`` and a real
``udpcl.agent.Agent`` as separate nodes (processes) joined by the host's
simulated D-Bus, with the real ``bp.cla.UdpclAdaptor`` in between; the hosts
are joined by the simulated UDP network. DESIGN 4 (E5f).
'''
import random
import re

from dsim import boot
from dsim.world import World, set_world, CallbackHang
from dsim.net import Net
from dsim import dbusmod
from scenarios import bp_net, dgram_pair

SEC = 10**6
ADDR = {'A': '10.3.0.1', 'B': '10.3.0.2'}
UDPCL_NAME = 'org.ietf.dtn.udpcl'


class FullStackHarness(bp_net.BpHarness):
    ''' Reuses the probe / bookkeeping of BpHarness; builds its own world. '''

    def __init__(self, plan, sched, verbose=False):  # pylint: disable=super-init-not-called
        bp_net.patch_bp()
        dgram_pair.patch_udpcl()
        import bp.agent
        import bp.config
        import udpcl.agent
        import udpcl.config
        self.plan = plan
        self.wld = World(sched, max_steps=plan.get('max_steps', 200000), max_time_us=3600 * SEC)
        self.wld.verbose = verbose
        set_world(self.wld)
        random.seed(sched.pick('global-random', 1 << 30))
        self.net = Net(self.wld, plan.get('net'))
        self.bus = {}
        self.agent = {}
        self.cl = {}
        self.node = {}
        self.by_agent = {}
        self.cl_out = {}
        self.delivered = {}
        self.receptions = []
        self.hang = False
        bp_net.CURRENT = self
        for side in ('A', 'B'):
            self.net.add_host('h' + side, ADDR[side])
            bus = dbusmod.SimBus(self.wld, 'bus' + side)
            self.bus[side] = bus
            clnode = self.wld.add_node('cl' + side, host='h' + side)
            bpnode = self.wld.add_node('bp' + side, host='h' + side)
            self.node['cl' + side] = clnode
            self.node['bp' + side] = bpnode
            with self.wld.as_node(clnode):
                ccfg = udpcl.config.Config(mtu_default=plan.get('mtu'), node_id='dtn://%s/' % side.lower(), ecn_init=False, ecn_feedback=False,
                                           bus_service=UDPCL_NAME)
                ccfg.init_listen = [udpcl.config.ListenConfig(address=ADDR[side], port=4556)]
                ccfg._bus_conn = bus
                self.cl[side] = udpcl.agent.Agent(ccfg)
            name = 'bp' + side
            self.cl_out[name] = []
            self.delivered[name] = []
            other = 'B' if side == 'A' else 'A'
            with self.wld.as_node(bpnode):
                cfg = bp.config.Config(node_id='dtn://%s/' % side.lower())
                cfg._bus_conn = bus
                cfg.rx_route_table = [bp.config.RxRouteItem(re.compile('^dtn://%s/.*$' % side.lower()), 'deliver')]
                cfg.tx_route_table = [bp.config.TxRouteItem(re.compile('.*'), 'dtn://%s/' % other.lower(), 'udpcl', mtu=plan.get('bp_mtu'),
                                                            raw_config=dict(address=ADDR[other], port=4556))]
                agent = bp.agent.Agent(cfg)
                agent.cl_attach('udpcl', UDPCL_NAME)
                self.agent[name] = agent
                self.by_agent[id(agent)] = name

    def run_until(self, until_us):
        try:
            self.wld.run(until_us=until_us)
        except CallbackHang:
            self.hang = True
            self.wld.cur = None
            self.wld.log('callback-hang')


TCPCL_NAME = 'org.ietf.dtn.tcpcl'
TCPCL_AGENT_PATH = '/org/ietf/dtn/tcpcl/Agent'


class TcpFullStackHarness(bp_net.BpHarness):
    ''' E5f over TCPCL: on each of two hosts a real ``bp.agent.Agent`` with the real ``bp.cla.TcpclAdaptor`` and a real
    ``tcpcl.agent.Agent`` as separate nodes on the host's simulated D-Bus; the hosts are joined by simulated TCP. The adaptor
    opens sessions on demand (``connect`` over D-Bus), attaches to contact objects on ``connection_opened``, sends through
    ``send_bundle_data`` and pops on ``recv_bundle_finished``. '''

    def __init__(self, plan, sched, verbose=False):  # pylint: disable=super-init-not-called
        bp_net.patch_bp()
        boot.patch_tcpcl()
        import bp.agent
        import bp.config
        import tcpcl.agent
        import tcpcl.config
        import tcpcl.session
        self.plan = plan
        self.wld = World(sched, max_steps=plan.get('max_steps', 300000), max_time_us=3600 * SEC)
        self.wld.verbose = verbose
        set_world(self.wld)
        random.seed(sched.pick('global-random', 1 << 30))
        self.net = Net(self.wld, plan.get('net'))
        tcpcl.session.Connection.CHUNK_SIZE = plan.get('chunk_size', 10240)
        self.bus = {}
        self.agent = {}
        self.cl = {}
        self.node = {}
        self.by_agent = {}
        self.cl_out = {}
        self.delivered = {}
        self.receptions = []
        self.hang = False
        #: contact paths per side, in the order they were announced
        self.opened = {'A': [], 'B': []}
        self.closed = {'A': [], 'B': []}
        bp_net.CURRENT = self
        for side in ('A', 'B'):
            self.net.add_host('h' + side, ADDR[side])
            bus = dbusmod.SimBus(self.wld, 'bus' + side)
            self.bus[side] = bus
            clnode = self.wld.add_node('cl' + side, host='h' + side)
            bpnode = self.wld.add_node('bp' + side, host='h' + side)
            self.node['cl' + side] = clnode
            self.node['bp' + side] = bpnode
            with self.wld.as_node(clnode):
                cfgd = dict(plan['cfg'][side])
                cfgd['enable_test'] = set(cfgd.get('enable_test', ()))
                ccfg = tcpcl.config.Config(bus_service=TCPCL_NAME, **cfgd)
                ccfg.init_listen = [tcpcl.config.ListenConfig(address=ADDR[side], port=4556)]
                ccfg._bus_conn = bus
                self.cl[side] = tcpcl.agent.Agent(ccfg)
            bus.matches.append(dict(node=None, sender=None, path=TCPCL_AGENT_PATH, iface=None, member='connection_opened',
                                    handler=lambda path, _side=side: self.opened[_side].append(str(path))))
            bus.matches.append(dict(node=None, sender=None, path=TCPCL_AGENT_PATH, iface=None, member='connection_closed',
                                    handler=lambda path, _side=side: self.closed[_side].append(str(path))))
            name = 'bp' + side
            self.cl_out[name] = []
            self.delivered[name] = []
            other = 'B' if side == 'A' else 'A'
            with self.wld.as_node(bpnode):
                cfg = bp.config.Config(node_id='dtn://%s/' % side.lower())
                cfg._bus_conn = bus
                cfg.rx_route_table = [bp.config.RxRouteItem(re.compile('^dtn://%s/.*$' % side.lower()), 'deliver')]
                cfg.tx_route_table = [bp.config.TxRouteItem(re.compile('.*'), 'dtn://%s/' % other.lower(), 'tcpcl', mtu=plan.get('bp_mtu'),
                                                            raw_config=dict(next_nodeid='dtn://%s/' % other.lower(), address=ADDR[other], port=4556))]
                agent = bp.agent.Agent(cfg)
                agent.cl_attach('tcpcl', TCPCL_NAME)
                self.agent[name] = agent
                self.by_agent[id(agent)] = name

    def user_call(self, side, path, member, *args):
        ''' A D-Bus call by a user of the TCPCL agent of ``side`` (someone with dbus-send). '''
        try:
            return self.bus[side].call(TCPCL_NAME, path, None, member, args)
        except dbusmod.DBusException as err:
            return ('error', err.get_dbus_name() or type(err).__name__, str(err)[:120])

    def run_until(self, until_us):
        try:
            self.wld.run(until_us=until_us)
        except CallbackHang:
            self.hang = True
            self.wld.cur = None
            self.wld.log('callback-hang')
