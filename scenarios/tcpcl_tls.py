''' Engine E4: E1 with the TLS stub and certificate fixtures (C15). '''
import datetime
import functools
import ipaddress

from scenarios import tcpcl_pair

_KEY = None


def _key():
    global _KEY
    if _KEY is None:
        from cryptography.hazmat.primitives.asymmetric import ec
        _KEY = ec.generate_private_key(ec.SECP256R1())
    return _KEY


@functools.lru_cache(maxsize=4096)
def make_cert(ips, dnss, uris):
    ''' Real X.509 DER with the given subject-alternative names. '''
    from cryptography import x509
    from cryptography.hazmat.primitives import hashes, serialization
    from cryptography.x509.oid import NameOID
    name = x509.Name([x509.NameAttribute(NameOID.COMMON_NAME, 'sim')])
    sans = [x509.IPAddress(ipaddress.ip_address(item)) for item in ips]
    sans += [x509.DNSName(item) for item in dnss]
    sans += [x509.UniformResourceIdentifier(item) for item in uris]
    builder = (x509.CertificateBuilder().subject_name(name).issuer_name(name).public_key(_key().public_key())
               .serial_number(1000).not_valid_before(datetime.datetime(2020, 1, 1)).not_valid_after(datetime.datetime(2040, 1, 1)))
    if sans:
        builder = builder.add_extension(x509.SubjectAlternativeName(sans), critical=False)
    cert = builder.sign(_key(), hashes.SHA256())
    der = cert.public_bytes(serialization.Encoding.DER)
    decoded = {'subjectAltName': tuple([('IP Address', item) for item in ips] + [('DNS', item) for item in dnss]
                                       + [('URI', item) for item in uris])}
    return (der, decoded)


class TlsHarness(tcpcl_pair.Harness):

    def __init__(self, plan, sched, verbose=False):
        tls = plan['tls']
        for side in ('A', 'P'):
            files = {}
            if tls['certs'][side] is not None:
                files = dict(tls_cert_file='cert' + side, tls_key_file='key' + side)
            plan['cfg'][side]['tls_files'] = files
        super().__init__(plan, sched, verbose)
        wld = self.wld
        wld.tls_certs = {}
        wld.tls_peer_cert = {}
        for (side, role) in (('A', 'client'), ('P', 'server')):
            cert = tls['certs'][side]
            if cert is not None:
                wld.tls_certs['cert' + side] = make_cert(tuple(cert['ip']), tuple(cert['dns']), tuple(cert['uri']))
                wld.tls_peer_cert[(0, role)] = 'cert' + side
            else:
                wld.tls_peer_cert[(0, role)] = None
        wld.tls_plan = {0: dict(fail=bool(tls.get('fail')))}


def run_plan(plan, sched, verbose=False):
    return TlsHarness(plan, sched, verbose).run()
