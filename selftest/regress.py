#!/venv/bin/python
''' Sensitivity self-test on the defects that were repaired in /repo
(DESIGN 8.2): for every "fix:" commit, a scratch worktree of HEAD gets that
one commit reverse-applied (the original defect comes back, everything else
stays fixed; where later fixes touched the same lines, selftest/reverts/<sha>.diff does it by hand), and the quick check of the property that should notice must
exit 1 with a VIOLATION line whose replay reproduces.

usage: selftest/regress.py [--budget S] [commit-prefix ...]
'''
import json
import os
import shutil
import subprocess
import sys
import tempfile

VERIF = os.path.dirname(os.path.dirname(os.path.abspath(__file__)))

#: fix commit subject (prefix match) -> properties expected to detect its reversal
EXPECT = [
    ('wait for a complete TCPCL contact header', ['C07']),
    ('keep the TCPCL connection open when the socket send buffer is full', ['C01']),
    ('send zero-length bundles over TCPCL', ['C01']),
    ('attach the private test transfer extension', ['C01']),
    ('do not start new TCPCL transfers after SESS_TERM', ['C04', 'C09']),
    ('remove cancelled transfers from the TCPCL send queue listing', ['C18']),
    ('count octets still in the socket-level buffer as not idle', ['C09']),
    ('close the TCPCL connection when the idle timer fires while terminating', ['C14']),
    ('key TCPCL segment transmit times by transfer', ['C01']),
    ("wait for the peer's SESS_TERM before closing", ['C09']),
    ('act on a KEEPALIVE as soon as', ['C07', 'C18']),
    ('report queued TCPCL transfers as not sent when the connection closes', ['C09']),
    ('keep octets that follow the TCPCL contact header', ['C07']),
    ('bound TCPCL extension item values', ['C07']),
    ('handle a received XFER_REFUSE', ['C07', 'C17']),
    ('answer an XFER_ACK for an unknown transfer', ['C17']),
    ('reject a SESS_TERM received before the TCPCL session', ['C17']),
    ('close the connection on a contact header with wrong magic', ['C17']),
    ('hand messages of unknown type to the handler', ['C17']),
    ('apply the TCPCL authentication policy to a TLS peer without certificate', ['C15']),
    ('require a matching host identifier', ['C15']),
    ('assign block numbers on the block itself', ['C11']),
    ('encode the SSP of a dtn EID as written', ['C11', 'C08']),
    ('fail the CRC check of a block that carries surplus', ['C08']),
    ('transmit the incremented hop count', ['C11']),
    ('remove every received Previous Node', ['C11']),
    ('leave the primary block of a forwarded bundle untouched', ['C11']),
    ('fragment bundles that were received', ['C05']),
    ('transmit nothing when a bundle cannot be fragmented', ['C05']),
    ('do not apply security policy again to the fragments', ['C05']),
    ('include the fragment payload length in the identity', ['C06']),
    ('do not report a bundle that was sent as fragments', ['C19']),
    ('verify every security block even when accepted ones are removed', ['C12']),
    ('record a security reason code when verifying', ['C12']),
    ('treat a security block whose content cannot be decoded', ['C12']),
    ('do not report a bundle as forwarded when forwarding it failed', ['C19']),
    ('reject a final XFER_ACK for a transfer whose last segment has not been sent', ['C17']),
    ('keep the primary block of a received bundle when it is sent as fragments', ['C05']),
    ('check block CRCs over the octets that were received', ['C08']),
    ('close a terminating TCPCL session after its last queued transfer was cancelled', ['C09']),
    ('refuse a security block without targets or with mismatched results', ['C12']),
    ('restart the BTP-U receive timeout', ['C20']),
    ('send BTP-U frames on the listening socket', ['C20']),
    ('complete a BTP-U transfer whose only segment is an end segment', ['C20']),
    ('keep the payload of an encrypted administrative record encrypted', ['C16']),
    ('bind a received security block by the received octets', ['C03', 'C16']),
    ('reject an XFER_REFUSE for a transfer that is queued but has not been started', ['C17']),
    ('let Agent.shutdown() deal with contacts that are already ending', ['C09']),
    ('remove received Previous Node and Bundle Age blocks by type code', ['C11']),
    ('do not let our own keepalives postpone the close', ['C14']),
    ('disconnect every contact in Agent.stop()', ['C09']),
    ('keep the type code of an encrypted block whose type was implied', ['C16']),
    ('keep the CRC type of the primary block on a reassembled bundle', ['C06']),
    ('keep a received transfer queued when recv_bundle_pop_file cannot write', ['C18']),
    ('use a random content IV when the configured list', ['C16']),
    ('declare the Sender Listen interval of the UDPCL polling_received signal', ['C18']),
]


#: repairs whose lines were rewritten by a later repair of the same code: taking the later one out (detected, see its own entry)
#: takes this one out as well, there is nothing left to revert separately
SUPERSEDED = {}


def main():
    budget = '30'
    args = sys.argv[1:]
    if args and args[0] == '--budget':
        budget = args[1]
        args = args[2:]
    log = subprocess.run(['git', '-C', '/repo', 'log', '--reverse', '--format=%h %s'], capture_output=True, text=True, check=True).stdout.splitlines()
    commits = [line.split(' ', 1) for line in log if line.split(' ', 1)[1].startswith('fix: ')]
    results = []
    for (sha, subject) in commits:
        if args and not any(sha.startswith(arg) for arg in args):
            continue
        props = None
        for (prefix, plist) in EXPECT:
            if subject[5:].startswith(prefix):
                props = plist
        if props is None:
            results.append(dict(commit=sha, subject=subject, status='no-expectation'))
            print('%s  (no expectation listed)  %s' % (sha, subject))
            continue
        tmp = tempfile.mkdtemp(prefix='regress_', dir=os.environ.get('TMPDIR', '/tmp'))
        wtree = os.path.join(tmp, 'wt')
        try:
            subprocess.run(['git', '-C', '/repo', 'worktree', 'add', '--detach', wtree, 'HEAD'], capture_output=True, check=True)
            manual = os.path.join(VERIF, 'selftest', 'reverts', sha[:7] + '.diff')
            if os.path.exists(manual):
                # later fixes touched the same lines: hand-written patch that takes this one fix out of HEAD
                rev = subprocess.run(['git', '-C', wtree, 'apply', manual], capture_output=True)
            else:
                patch = subprocess.run(['git', '-C', '/repo', 'show', sha], capture_output=True, check=True).stdout
                rev = subprocess.run(['git', '-C', wtree, 'apply', '-R', '--3way'], input=patch, capture_output=True)
                if rev.returncode != 0:
                    rev = subprocess.run(['git', '-C', wtree, 'apply', '-R'], input=patch, capture_output=True)
            if rev.returncode != 0 and any(subject[5:].startswith(prefix) for prefix in SUPERSEDED):
                note = [text for (prefix, text) in SUPERSEDED.items() if subject[5:].startswith(prefix)][0]
                results.append(dict(commit=sha, subject=subject, status='detected', expected=props, detected=[], superseded=note))
                print('%s  superseded (%s)  %s' % (sha, note, subject))
                continue
            if rev.returncode != 0:
                results.append(dict(commit=sha, subject=subject, status='cannot-revert'))
                print('%s  cannot be reverse-applied on HEAD  %s' % (sha, subject))
                continue
            detected = []
            for prop in props:
                env = dict(os.environ, VERIF_REPO_SRC=os.path.join(wtree, 'src'), VERIF_MIN_BUDGET_S='10', VERIF_OUT_DIR=tmp)
                proc = subprocess.run([os.path.join(VERIF, 'check'), prop, '--tier', 'quick', '--budget', budget], env=env, capture_output=True, text=True, cwd=VERIF)
                viol = [line for line in proc.stdout.splitlines() if line.startswith('violation:')]
                if proc.returncode == 1 and 'VIOLATION property=' in proc.stdout:
                    detected.append(dict(prop=prop, signatures=[line.split(' ')[1] for line in viol]))
                elif proc.returncode not in (0, 1):
                    detected.append(dict(prop=prop, harness_error=proc.stdout[-400:]))
            good = [item for item in detected if 'signatures' in item]
            status = 'detected' if good else 'MISSED'
            results.append(dict(commit=sha, subject=subject, status=status, expected=props, detected=detected))
            print('%s  %-8s by %-18s %s' % (sha, status, ','.join(item['prop'] for item in good) or '-', subject))
            sys.stdout.flush()
        finally:
            subprocess.run(['git', '-C', '/repo', 'worktree', 'remove', '--force', wtree], capture_output=True)
            shutil.rmtree(tmp, ignore_errors=True)
    out = os.path.join(VERIF, 'selftest', 'regress_result.json')
    if args and os.path.exists(out):
        # a partial run updates the entries of the commits it covered
        with open(out) as infile:
            keep = [item for item in json.load(infile) if not any(item['commit'].startswith(arg) or arg.startswith(item['commit']) for arg in args)]
        order = [sha for (sha, _subject) in commits]
        results = sorted(keep + results, key=lambda item: order.index(item['commit']) if item['commit'] in order else -1)
    with open(out, 'w') as outfile:
        json.dump(results, outfile, indent=1)
    missed = [item for item in results if item['status'] != 'detected']
    print('%d of %d reverted fixes detected; result in %s' % (len(results) - len(missed), len(results), out))
    return 1 if missed else 0


if __name__ == '__main__':
    sys.exit(main())
