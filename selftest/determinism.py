''' Determinism self-test (DESIGN 8.1): each case is run
(1) twice in one process, in different neighbourhoods (forward and reverse
    order, so that leaked state from another case would show), and
(2) once more in a fresh interpreter with another PYTHONHASHSEED;
the (history digest, violation signatures, tape length) must be identical.
'''
import json
import os
import subprocess
import sys

from dsim import boot, runner

VERIF = os.path.dirname(os.path.dirname(os.path.abspath(__file__)))


def _digests(prop_id, count, order):
    prop = runner.load_prop(prop_id)
    out = {}
    for index in order:
        res = runner.run_seed(prop, 'quick', 424242, index)
        sigs = sorted(set(runner.signature(prop_id, viol) for viol in res['viols']))
        out[index] = (res['digest'], sigs, len(res['tape']))
    return out


def child(args):
    boot.boot()
    count = args.cases or 10
    res = _digests(args.prop, count, list(range(count)))
    print('DIGESTS ' + json.dumps(res))
    return 0


def main(args):
    boot.boot()
    props = [args.prop] if args.prop not in ('all', 'x') else sorted(
        name[:-3] for name in os.listdir(os.path.join(VERIF, 'props')) if name.startswith('C') and name.endswith('.py'))
    count = args.cases or 10
    bad = 0
    for prop_id in props:
        fwd = _digests(prop_id, count, list(range(count)))
        rev = _digests(prop_id, count, list(reversed(range(count))))
        env = dict(os.environ, PYTHONHASHSEED='98765', VERIF_NO_REEXEC='1')
        proc = subprocess.run([sys.executable, os.path.join(VERIF, 'check'), prop_id, '--selftest', 'determinism-child', '--cases', str(count)],
                              env=env, capture_output=True, text=True, timeout=1800)
        fresh = {}
        for line in proc.stdout.splitlines():
            if line.startswith('DIGESTS '):
                fresh = {int(key): tuple(val) for (key, val) in json.loads(line[8:]).items()}
        diffs = []
        for index in range(count):
            one = fwd[index]
            two = rev[index]
            three = fresh.get(index)
            three = (three[0], three[1], three[2]) if three else None
            if not (one == two and three is not None and (one[0], one[1], one[2]) == (three[0], list(three[1]) if not isinstance(three[1], list) else three[1], three[2])):
                diffs.append((index, one, two, three))
        if diffs:
            bad += 1
            print('NONDETERMINISTIC %s: %d of %d cases differ, e.g. %r' % (prop_id, len(diffs), count, diffs[0]))
        else:
            print('deterministic %s: %d cases x (forward, reverse, fresh interpreter with other hash seed)' % (prop_id, count))
    return 1 if bad else 0
