#!/bin/bash
# thorough tier of every claimed check, one after the other; prints one line per check
# usage: selftest/sweep.sh [tier] [seed]
tier=${1:-thorough}
seed=${2:-1}
cd "$(dirname "$0")/.."
for c in C01 C03 C04 C05 C06 C07 C08 C09 C10 C11 C12 C13 C14 C15 C16 C17 C18 C19 C20; do
  VERIF_SEED=$seed ./check $c --tier $tier 2>&1 | grep -v "^WARNING" | grep -E "^(VIOLATION|violation|KNOWN-FINDING|HARNESS-ERROR|C[0-9][0-9] )" 
  echo "$c exit=${PIPESTATUS[0]}"
done
