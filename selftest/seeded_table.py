#!/venv/bin/python
''' Prints the DESIGN 12.5 table rows for the seeded changes of one round (or all): selftest/seeded_table.py [round] '''
import json
import os
import sys

VERIF = os.path.dirname(os.path.dirname(os.path.abspath(__file__)))


def main():
    want = int(sys.argv[1]) if len(sys.argv) > 1 else None
    for name in sorted(os.listdir(os.path.join(VERIF, 'seeded'))):
        meta = json.load(open(os.path.join(VERIF, 'seeded', name, 'meta.json')))
        if want is not None and meta.get('round') != want:
            continue
        needs = ' '.join(str(meta.get('needs_to_manifest', '')).split())
        if len(needs) > 168:
            needs = needs[:165] + '...'
        caught = ', '.join(meta.get('evaluation', {}).get('detected_by', [])) or '-'
        note = ''
        if meta.get('prior_checks') == 'missed':
            note = '**missed at first**: ' + meta.get('history', '')
        if meta.get('same_change_as'):
            note = (note + ' ' if note else '') + '(the same change as %s, handed in for another property)' % meta['same_change_as']
        print('| %s | %s | %s | %s | %s |' % (name, meta.get('round', '?'), needs.replace('|', '/'), caught, note))


if __name__ == '__main__':
    main()
