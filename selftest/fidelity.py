''' Stub-fidelity self-tests (DESIGN 8.3):
 portion shim vs a set-of-integers model; CRC shim vs the bitwise reference and
 catalogue values; reference codecs vs the repository's shipped test vectors and
 third-party interop bundles; D-Bus marshalling model vs real dbus-python and
 fake GLib dispatch order vs real GLib (both through /usr/bin/python3 when it has
 them, otherwise reported as skipped).
'''
import json
import os
import random
import subprocess
import sys

VERIF = os.path.dirname(os.path.dirname(os.path.abspath(__file__)))
SYSPY = '/usr/bin/python3'


def test_portion():
    import portion
    rng = random.Random(7)
    for _ in range(3000):
        model = set()
        intv = portion.empty()
        parts = []
        for _p in range(rng.randrange(1, 6)):
            low = rng.randrange(0, 40)
            high = low + rng.randrange(0, 12)
            parts.append((low, high))
            intv |= portion.closedopen(low, high)
            model |= set(range(low, high))
        assert sorted(portion.iterate(intv, step=1)) == sorted(model), (parts,)
        for probe in range(-1, 55):
            assert (probe in intv) == (probe in model)
        total = rng.randrange(0, 50)
        assert (intv == portion.closedopen(0, total)) == (model == set(range(total)))
        # atomic pieces are maximal runs
        runs = []
        for val in sorted(model):
            if runs and runs[-1][1] == val:
                runs[-1][1] = val + 1
            else:
                runs.append([val, val + 1])
        assert [(piece.lower, piece.upper) for piece in intv] == [tuple(run) for run in runs]

    class IntInterval(portion.AbstractDiscreteInterval):
        _step = 1

    api = portion.create_api(IntInterval)
    for _ in range(2000):
        model = set()
        intv = api.empty()
        for _p in range(rng.randrange(1, 7)):
            val = rng.randrange(0, 12)
            intv |= api.singleton(val)
            model.add(val)
        top = rng.randrange(0, 12)
        assert (intv == api.closed(0, top)) == (model == set(range(top + 1)))
        assert sorted(portion.iterate(api.closed(0, top), step=1)) == list(range(top + 1))
        for probe in range(13):
            assert (probe in intv) == (probe in model)
    return '5000 random interval unions agree with the set model'


def test_crc():
    from crcmod.predefined import mkPredefinedCrcFun
    from ref import crc as refcrc
    rng = random.Random(3)
    f16 = mkPredefinedCrcFun('x-25')
    f32 = mkPredefinedCrcFun('crc-32c')
    for _ in range(2000):
        data = rng.randbytes(rng.randrange(0, 200))
        assert f16(data) == refcrc.crc16_x25(data)
        assert f32(data) == refcrc.crc32c(data)
    return 'table-driven shim == bitwise reference on 2000 inputs; catalogue check values asserted at import'


def test_rfc9174_vectors():
    ''' Hex vectors copied from /repo/src/tcpcl/test/test_messages.py (passing upstream tests). '''
    from ref import rfc9174
    vectors = [
        ('07' + '0000' + 'ffffffffffffffff' + 'ffffffffffffffff' + '0000' + '00000000', 'SESS_INIT'),
        ('060702', 'MSG_REJECT'),
        ('03' + '02' + '00000000000004d2', 'XFER_REFUSE'),
        ('04', 'KEEPALIVE'),
    ]
    for (hexstr, kind) in vectors:
        (msg, end) = rfc9174.decode_message(bytes.fromhex(hexstr))
        assert msg['kind'] == kind and end == len(hexstr) // 2
        assert rfc9174.encode(msg) == bytes.fromhex(hexstr), (kind, rfc9174.encode(msg).hex())
    # the repository codec and the reference agree on every message kind both ways
    from dsim import boot
    boot.boot()
    import tcpcl.messages as msgs
    from scenarios.tcpcl_peer import pkt_to_dict, msg_fields
    samples = [
        dict(kind='SESS_INIT', keepalive=30, segment_mru=1000, transfer_mru=2**64 - 1, nodeid=b'dtn://x/', ext=[dict(flags=1, type=0xFF, value=bytes(10)), dict(flags=0, type=9, value=b'ab')]),
        dict(kind='XFER_SEGMENT', flags=3, transfer_id=7, ext=[rfc9174.xfer_length_ext(3)], data=b'abc'),
        dict(kind='XFER_SEGMENT', flags=0, transfer_id=7, ext=[], data=b''),
        dict(kind='XFER_ACK', flags=1, transfer_id=9, length=12345),
        dict(kind='XFER_REFUSE', reason=3, transfer_id=77),
        dict(kind='SESS_TERM', flags=1, reason=4),
        dict(kind='MSG_REJECT', rej_msg_id=5, reason=2),
        dict(kind='KEEPALIVE'),
    ]
    for sample in samples:
        data = rfc9174.encode(sample)
        pkt = msgs.MessageHead(data)
        assert bytes(pkt) == data, sample['kind']
        got = pkt_to_dict(pkt)
        want = dict(sample)
        assert got == want, (got, want)
        (back, _end) = rfc9174.decode_message(bytes(pkt))
        assert msg_fields(back) == want
    return '%d upstream hex vectors and %d cross-codec round trips agree' % (len(vectors), len(samples))


def test_bp_vectors():
    import cbor2
    from ref import rfc9171, bpsec_cose
    base = os.path.join(os.environ.get('VERIF_REPO_SRC', '/repo/src'), 'bp', 'test', 'data')
    keys = {}
    for name in ('key-ExampleA.1.cbor', 'key-ExampleA.4.cbor', 'key-ExampleA.5.cbor'):
        key = cbor2.loads(open(os.path.join(base, name), 'rb').read())
        keys[key[2]] = key[-1]
    want = {'exampleA.1.cbor': [True], 'interop-integrity-full.cbor': [True, True], 'interop-altered-aad.cbor': [False]}
    for (name, verdict) in want.items():
        data = open(os.path.join(base, name), 'rb').read()
        dec = rfc9171.decode_bundle(data)
        assert rfc9171.reencode(dec) == data, name
        bib = [blk for blk in dec['blocks'] if blk['type'] == 11][0]
        assert bpsec_cose.verify_bib(dec, bib, keys) == verdict, name
    return 'reference decoder re-encodes and the independent AAD/HMAC (incl. AES-KW) verifies the shipped interop bundles as expected'


_DBUS_CASES = [
    ('sts', ['1', 5, 'success'], True), ('sts', [1, 'refused with code %s', 3], False), ('st', ['7', 0], True), ('st', ['7', -1], False),
    ('st', ['7', 2**64], False), ('st', ['7', '12'], True), ('st', ['7', 'x'], False), ('st', ['7', None], False), ('st', ['7', 3.5], True),
    ('sv', ['1', ''], True), ('sv', ['1', 5], True), ('sv', ['1', 2**31], False), ('sv', ['1', None], False), ('s', [5], False), ('s', ['ok'], True),
    ('o', ['/org/ietf/dtn/tcpcl/Contact0'], True), ('q', [65535], True), ('q', [65536], False), ('b', [1], True), ('as', [['a', 'b']], True),
    ('as', [[1]], False), ('a{sv}', [{'address': '10.0.0.1', 'port': 4556}], True), ('a{sv}', [{'k': None}], False), ('sta{sv}', ['0', 12, {'address': 'x'}], True),
    ('xissq', [820000000000, 1000, 'dtn://n/', '10.0.0.1', 4556], True), ('xissq', [1, 2, 'a', 'b'], False), ('ay', [[1, 2, 255]], True), ('ay', [[256]], False),
    ('y', [7], True), ('ssb', ['a', 'b', True], True),
]


def test_dbus_model():
    from dsim import boot
    boot.boot()
    from dsim import dbusmod
    from ref import dbus_sig
    model = []
    for (sig, args, _exp) in _DBUS_CASES:
        model.append(dbus_sig.conforms(sig, tuple(args), dbusmod._TYPES) is None)
    script = r'''
import json, sys
import dbus, dbus.lowlevel
cases = json.load(sys.stdin)
out = []
for (sig, args) in cases:
    msg = dbus.lowlevel.SignalMessage('/x', 'org.example.I', 'member')
    try:
        msg.append(signature=sig, *args)
        out.append(True)
    except Exception as err:
        out.append(False)
print(json.dumps(out))
'''
    try:
        proc = subprocess.run([SYSPY, '-c', script], input=json.dumps([[sig, args] for (sig, args, _e) in _DBUS_CASES]), capture_output=True, text=True, timeout=60)
        real = json.loads(proc.stdout)
    except Exception as err:  # pylint: disable=broad-except
        real = None
    declared = [exp for (_s, _a, exp) in _DBUS_CASES]
    assert model == declared, [(case, got) for (case, got) in zip(_DBUS_CASES, model) if case[2] != got]
    if real is None:
        return 'model agrees with the %d recorded verdicts; real dbus-python not available: differential part skipped' % len(declared)
    diff = [(case, mod, rea) for (case, mod, rea) in zip(_DBUS_CASES, model, real) if mod != rea]
    assert not diff, diff
    return 'marshalling model == real dbus-python 1.3 on %d (signature, arguments) cases' % len(declared)


def test_glib_model():
    ''' Scripted scenario: dispatch order per iteration, fake vs real GLib. '''
    from dsim import boot
    boot.boot()
    from dsim.world import World, Chooser, set_world
    from dsim import glibmod
    from dsim.net import Net, StreamSock

    def scenario(api, add_watch, order):
        state = {'i1': 0}

        def idle1():
            order.append('I1')
            state['i1'] += 1
            return state['i1'] < 2

        def idle2():
            order.append('I2')
            return False

        def tmo():
            order.append('T')
            api.idle_add(idle3)
            return False

        def idle3():
            order.append('I3')
            return False

        def watch(*_args):
            order.append('W')
            return False

        def boom():
            order.append('X')
            raise ValueError('boom')

        api.idle_add(idle1)
        api.idle_add(idle2)
        api.timeout_add(0, tmo)
        add_watch(watch)
        api.idle_add(boom)

    # fake
    wld = World(Chooser(1))
    set_world(wld)
    net = Net(wld)
    net.add_host('h', '10.0.0.1')
    node = wld.add_node('n', host='h')
    fake = []
    with wld.as_node(node):
        lst = StreamSock(net)
        lst.bind(('10.0.0.1', 5))
        lst.listen(1)
        cli = StreamSock(net)
        cli.connect(('10.0.0.1', 5))
        (srv, _addr) = lst.accept()
        srv.rxbuf += b'x'
        per_iter = []
        scenario(glibmod, lambda func: glibmod.io_add_watch(srv, glibmod.IO_IN, func), fake)
    for _ in range(5):
        before = len(fake)
        wld.now += 1000
        wld.iterate(node)
        per_iter.append(fake[before:])
    script = r'''
import json, socket, sys, os
from gi.repository import GLib
order = []
state = {'i1': 0}
def idle1():
    order.append('I1'); state['i1'] += 1; return state['i1'] < 2
def idle2():
    order.append('I2'); return False
def idle3():
    order.append('I3'); return False
def tmo():
    order.append('T'); GLib.idle_add(idle3); return False
def watch(*a):
    order.append('W'); return False
def boom():
    order.append('X'); raise ValueError('boom')
(a, b) = socket.socketpair()
b.send(b'x')
GLib.idle_add(idle1); GLib.idle_add(idle2); GLib.timeout_add(0, tmo); GLib.io_add_watch(a, GLib.IO_IN, watch); GLib.idle_add(boom)
import time
ctx = GLib.MainContext.default()
out = []
sys.stderr = open(os.devnull, 'w')
for _ in range(5):
    time.sleep(0.002)
    before = len(order)
    ctx.iteration(False)
    out.append(order[before:])
print(json.dumps(out))
'''
    try:
        proc = subprocess.run([SYSPY, '-c', script], capture_output=True, text=True, timeout=60)
        real = json.loads(proc.stdout.strip().splitlines()[-1])
    except Exception:  # pylint: disable=broad-except
        real = None
    if real is None:
        return 'fake GLib scenario ran (%r); real GLib not available: differential part skipped' % (per_iter,)
    assert per_iter == real, (per_iter, real)
    return 'fake GLib dispatch order == real GLib over 5 iterations of the scripted scenario: %r' % (real,)


def main(_args):
    sys.path.insert(0, VERIF)
    from dsim import boot
    boot.boot()
    failed = 0
    for func in (test_portion, test_crc, test_rfc9174_vectors, test_bp_vectors, test_dbus_model, test_glib_model):
        try:
            print('ok   %-22s %s' % (func.__name__, func()))
        except AssertionError as err:
            failed += 1
            print('FAIL %-22s %s' % (func.__name__, str(err)[:600]))
    return 1 if failed else 0
