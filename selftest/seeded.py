#!/venv/bin/python
''' Evaluate seeded changes (DESIGN 8.2, brief "seeded/<id>/"):
  selftest/seeded.py import <name> <outdir> <prop> [check ...]   copy patch.diff / demo.py / meta.json from a sub-agent's output dir into seeded/<name>/ and evaluate
  selftest/seeded.py eval <name> [check ...]                      re-evaluate an existing seeded/<name>/
  selftest/seeded.py all                                          re-evaluate every seeded change with the checks recorded in its meta.json
For each: scratch worktree of /repo HEAD + patch; baseline tests; demo with and without the change; then the named checks (quick tier)
with VERIF_REPO_SRC pointing at the scratch tree. Results go to seeded/<name>/meta.json (key "evaluation").
'''
import json
import os
import shutil
import subprocess
import sys
import tempfile

VERIF = os.path.dirname(os.path.dirname(os.path.abspath(__file__)))
PY = '/venv/bin/python'


def evaluate(name, checks, budget='40'):
    sdir = os.path.join(VERIF, 'seeded', name)
    meta = json.load(open(os.path.join(sdir, 'meta.json')))
    tmp = tempfile.mkdtemp(prefix='seeded_', dir=os.environ.get('TMPDIR', '/tmp'))
    wtree = os.path.join(tmp, 'wt')
    out = dict(checks={})
    try:
        subprocess.run(['git', '-C', '/repo', 'worktree', 'add', '--detach', wtree, 'HEAD'], capture_output=True, check=True)
        demo = os.path.join(sdir, 'demo.py')
        if os.path.exists(demo):
            proc = subprocess.run([PY, demo, os.path.join(wtree, 'src')], capture_output=True, text=True, timeout=600)
            out['demo_without_change'] = 'exit %d' % proc.returncode
        proc = subprocess.run(['git', '-C', wtree, 'apply', os.path.join(sdir, 'patch.diff')], capture_output=True, text=True)
        if proc.returncode != 0:
            out['apply'] = 'FAILED: ' + proc.stderr[-300:]
            return out
        out['apply'] = 'ok'
        proc = subprocess.run([PY, '-m', 'pytest', '-q', '-p', 'no:cacheprovider', '--continue-on-collection-errors'], cwd=wtree, capture_output=True, text=True, timeout=900)
        out['baseline_tests'] = proc.stdout.strip().splitlines()[-1] if proc.stdout.strip() else 'no output'
        if os.path.exists(demo):
            proc = subprocess.run([PY, demo, os.path.join(wtree, 'src')], capture_output=True, text=True, timeout=600)
            out['demo_with_change'] = 'exit %d' % proc.returncode
        for check in checks:
            env = dict(os.environ, VERIF_REPO_SRC=os.path.join(wtree, 'src'), VERIF_MIN_BUDGET_S='10', VERIF_OUT_DIR=tmp)
            proc = subprocess.run([os.path.join(VERIF, 'check'), check, '--tier', 'quick', '--budget', budget], env=env, capture_output=True, text=True, cwd=VERIF)
            sigs = [line.split(' ')[1] for line in proc.stdout.splitlines() if line.startswith('violation:')]
            out['checks'][check] = dict(exit=proc.returncode, signatures=sigs)
    finally:
        subprocess.run(['git', '-C', '/repo', 'worktree', 'remove', '--force', wtree], capture_output=True)
        shutil.rmtree(tmp, ignore_errors=True)
    out['detected_by'] = sorted(chk for (chk, res) in out['checks'].items() if res['exit'] == 1 and res['signatures'])
    out['what_was_run'] = ('scratch worktree of /repo HEAD with patch.diff applied; baseline pytest; demo.py with and without the change; '
                           './check <id> --tier quick --budget %s with VERIF_REPO_SRC pointing at the scratch tree' % budget)
    meta['evaluation'] = out
    meta['checks_tried'] = checks
    json.dump(meta, open(os.path.join(sdir, 'meta.json'), 'w'), indent=1)
    return out


def main():
    cmd = sys.argv[1]
    if cmd == 'import':
        (name, outdir, prop) = sys.argv[2:5]
        checks = sys.argv[5:] or [prop]
        sdir = os.path.join(VERIF, 'seeded', name)
        os.makedirs(sdir, exist_ok=True)
        for fname in ('patch.diff', 'demo.py', 'meta.json'):
            shutil.copy(os.path.join(outdir, fname), os.path.join(sdir, fname))
        meta = json.load(open(os.path.join(sdir, 'meta.json')))
        meta['breaks_property'] = prop
        json.dump(meta, open(os.path.join(sdir, 'meta.json'), 'w'), indent=1)
        res = evaluate(name, checks)
    elif cmd == 'eval':
        name = sys.argv[2]
        meta = json.load(open(os.path.join(VERIF, 'seeded', name, 'meta.json')))
        res = evaluate(name, sys.argv[3:] or meta.get('checks_tried') or [meta['breaks_property']])
    elif cmd == 'all':
        bad = 0
        for name in sorted(os.listdir(os.path.join(VERIF, 'seeded'))):
            meta = json.load(open(os.path.join(VERIF, 'seeded', name, 'meta.json')))
            res = evaluate(name, meta.get('checks_tried') or [meta['breaks_property']])
            print('%-28s tests=%s demo=%s/%s detected_by=%s' % (name, res.get('baseline_tests'), res.get('demo_without_change'), res.get('demo_with_change'), res.get('detected_by')))
            bad += 0 if res.get('detected_by') else 1
        return 1 if bad else 0
    else:
        print(__doc__)
        return 2
    print(json.dumps(res, indent=1))
    return 0


if __name__ == '__main__':
    sys.exit(main())
