''' Self-tests of the machinery: determinism, stub fidelity (DESIGN 8). '''
import json
import os
import subprocess
import sys


def run_selftest(name, args):
    if name == 'determinism':
        from . import determinism
        return determinism.main(args)
    if name == 'determinism-child':
        from . import determinism
        return determinism.child(args)
    if name == 'fidelity':
        from . import fidelity
        return fidelity.main(args)
    print('unknown selftest %r' % name)
    return 2
