#!/bin/sh
# MANIFEST.setup_cmd: everything runs from files on disk; verify the toolchain and the shims.
set -e
cd "$(dirname "$0")"
/venv/bin/python -c "import scapy, cbor2, pycose, cryptography, asn1, hypothesis" 
PYTHONHASHSEED=0 /venv/bin/python -c "
import sys
sys.path.insert(0, '.')
from dsim import boot
boot.boot()
boot.patch_tcpcl()
print('setup ok: repo sources from', boot.REPO_SRC)
"
