''' Independent TCPCLv4 (RFC 9174) codec and session grammar automaton.

Written from the RFC with ``struct`` only; shares no code with the repository.
MSG_REJECT octet order follows the repository's shipped (passing) test vector
``06 07 02`` = (rejected message type, reason); see DESIGN 3.
'''
import struct

MAGIC = b'dtn!'

XFER_SEGMENT = 0x01
XFER_ACK = 0x02
XFER_REFUSE = 0x03
KEEPALIVE = 0x04
SESS_TERM = 0x05
MSG_REJECT = 0x06
SESS_INIT = 0x07

NAMES = {
    XFER_SEGMENT: 'XFER_SEGMENT', XFER_ACK: 'XFER_ACK', XFER_REFUSE: 'XFER_REFUSE',
    KEEPALIVE: 'KEEPALIVE', SESS_TERM: 'SESS_TERM', MSG_REJECT: 'MSG_REJECT',
    SESS_INIT: 'SESS_INIT',
}

FLAG_END = 0x01
FLAG_START = 0x02
TERM_REPLY = 0x01
CAN_TLS = 0x01
EXT_CRITICAL = 0x01
EXT_XFER_LENGTH = 0x0001


class DecodeError(Exception):
    pass


class Need(Exception):
    ''' More octets are needed. '''


def _take(data, pos, size):
    if pos + size > len(data):
        raise Need()
    return (data[pos:pos + size], pos + size)


def _ext_items(blob):
    items = []
    pos = 0
    while pos < len(blob):
        if pos + 5 > len(blob):
            raise DecodeError('truncated extension item head')
        (flags, typ, length) = struct.unpack_from('!BHH', blob, pos)
        pos += 5
        if pos + length > len(blob):
            raise DecodeError('truncated extension item value')
        items.append(dict(flags=flags, type=typ, value=bytes(blob[pos:pos + length])))
        pos += length
    return items


def _enc_ext(items):
    out = b''
    for item in items or ():
        out += struct.pack('!BHH', item.get('flags', 0), item['type'], len(item['value'])) + item['value']
    return out


def decode_contact(data, pos=0):
    ''' Contact header: returns (dict, newpos); raises Need on a prefix. '''
    (head, newpos) = _take(data, pos, 5)
    magic = bytes(head[:4])
    version = head[4]
    if magic != MAGIC:
        raise DecodeError('bad magic')
    if version != 4:
        # other versions have another layout; the v4 header is 6 octets
        raise DecodeError('bad version %d' % version)
    (flg, newpos) = _take(data, newpos, 1)
    return (dict(kind='CONTACT', magic=magic, version=version, flags=flg[0]), newpos)


def decode_message(data, pos=0):
    ''' One message: returns (dict, newpos); raises Need on a prefix. '''
    (head, cur) = _take(data, pos, 1)
    typ = head[0]
    if typ == XFER_SEGMENT:
        (fix, cur) = _take(data, cur, 9)
        (flags, tid) = struct.unpack('!BQ', fix)
        ext = []
        if flags & FLAG_START:
            (raw, cur) = _take(data, cur, 4)
            (extlen,) = struct.unpack('!I', raw)
            (blob, cur) = _take(data, cur, extlen)
            ext = _ext_items(blob)
        (raw, cur) = _take(data, cur, 8)
        (dlen,) = struct.unpack('!Q', raw)
        (body, cur) = _take(data, cur, dlen)
        msg = dict(kind='XFER_SEGMENT', flags=flags, transfer_id=tid, ext=ext, data=bytes(body))
    elif typ == XFER_ACK:
        (fix, cur) = _take(data, cur, 17)
        (flags, tid, length) = struct.unpack('!BQQ', fix)
        msg = dict(kind='XFER_ACK', flags=flags, transfer_id=tid, length=length)
    elif typ == XFER_REFUSE:
        (fix, cur) = _take(data, cur, 9)
        (reason, tid) = struct.unpack('!BQ', fix)
        msg = dict(kind='XFER_REFUSE', reason=reason, transfer_id=tid)
    elif typ == KEEPALIVE:
        msg = dict(kind='KEEPALIVE')
    elif typ == SESS_TERM:
        (fix, cur) = _take(data, cur, 2)
        msg = dict(kind='SESS_TERM', flags=fix[0], reason=fix[1])
    elif typ == MSG_REJECT:
        (fix, cur) = _take(data, cur, 2)
        msg = dict(kind='MSG_REJECT', rej_msg_id=fix[0], reason=fix[1])
    elif typ == SESS_INIT:
        (fix, cur) = _take(data, cur, 20)
        (keepalive, seg_mru, xfer_mru, nlen) = struct.unpack('!HQQH', fix)
        (nodeid, cur) = _take(data, cur, nlen)
        (raw, cur) = _take(data, cur, 4)
        (extlen,) = struct.unpack('!I', raw)
        (blob, cur) = _take(data, cur, extlen)
        msg = dict(kind='SESS_INIT', keepalive=keepalive, segment_mru=seg_mru,
                   transfer_mru=xfer_mru, nodeid=bytes(nodeid), ext=_ext_items(blob))
    else:
        raise DecodeError('unknown message type 0x%02x' % typ)
    msg['size'] = cur - pos
    return (msg, cur)


def encode(msg):
    kind = msg['kind']
    if kind == 'CONTACT':
        return msg.get('magic', MAGIC) + bytes([msg.get('version', 4), msg.get('flags', 0)])
    if kind == 'XFER_SEGMENT':
        out = struct.pack('!BBQ', XFER_SEGMENT, msg['flags'], msg['transfer_id'])
        if msg['flags'] & FLAG_START:
            ext = _enc_ext(msg.get('ext'))
            out += struct.pack('!I', len(ext)) + ext
        out += struct.pack('!Q', len(msg['data'])) + msg['data']
        return out
    if kind == 'XFER_ACK':
        return struct.pack('!BBQQ', XFER_ACK, msg['flags'], msg['transfer_id'], msg['length'])
    if kind == 'XFER_REFUSE':
        return struct.pack('!BBQ', XFER_REFUSE, msg['reason'], msg['transfer_id'])
    if kind == 'KEEPALIVE':
        return bytes([KEEPALIVE])
    if kind == 'SESS_TERM':
        return bytes([SESS_TERM, msg.get('flags', 0), msg.get('reason', 0)])
    if kind == 'MSG_REJECT':
        return bytes([MSG_REJECT, msg.get('rej_msg_id', 0), msg.get('reason', 1)])
    if kind == 'SESS_INIT':
        nodeid = msg.get('nodeid', b'')
        ext = _enc_ext(msg.get('ext'))
        return (struct.pack('!BHQQH', SESS_INIT, msg.get('keepalive', 0), msg.get('segment_mru', 2**64 - 1),
                            msg.get('transfer_mru', 2**64 - 1), len(nodeid)) + nodeid
                + struct.pack('!I', len(ext)) + ext)
    if kind == 'RAW':
        return msg['data']
    raise ValueError('cannot encode %r' % kind)


def xfer_length_ext(total):
    return dict(flags=0, type=EXT_XFER_LENGTH, value=struct.pack('!Q', total))


class StreamDecoder:
    ''' Incremental decoder for one direction of a connection. '''

    def __init__(self):
        self.buf = bytearray()
        self.offset = 0  # stream offset of buf[0]
        self.got_contact = False
        self.msgs = []
        self.error = None
        self.feeds = []

    def feed(self, data, stamp=None):
        ''' Append octets; returns the list of newly completed messages.
        ``stamp`` is attached to every message completed by this feed. '''
        if self.error is not None:
            return []
        self.feeds.append((self.offset + len(self.buf), stamp))
        self.buf += data
        out = []
        pos = 0
        while pos < len(self.buf):
            try:
                if not self.got_contact:
                    (msg, newpos) = decode_contact(self.buf, pos)
                    self.got_contact = True
                else:
                    (msg, newpos) = decode_message(self.buf, pos)
            except Need:
                break
            except DecodeError as err:
                self.error = (self.offset + pos, str(err))
                break
            msg['offset'] = self.offset + pos
            msg['end'] = self.offset + newpos
            msg['stamp'] = stamp
            msg['start_stamp'] = self._stamp_at(msg['offset'])
            out.append(msg)
            pos = newpos
        del self.buf[:pos]
        self.offset += pos
        # keep only the feeds that can still hold the start of a pending message
        while len(self.feeds) > 1 and self.feeds[1][0] <= self.offset:
            self.feeds.pop(0)
        self.msgs.extend(out)
        return out

    def pending(self):
        return len(self.buf)

    def _stamp_at(self, offset):
        ''' Stamp of the feed that delivered the octet at ``offset``. '''
        found = None
        for (start, stamp) in reversed(self.feeds):
            if start <= offset:
                found = stamp
                break
        return found


class Grammar:
    ''' RFC 9174 legality of what ONE endpoint writes, judged with knowledge
    of what the other endpoint wrote (peer MRU, segments being acknowledged).
    Feed messages of both directions in wire order through ``sent`` (this
    endpoint's output) and ``peer_sent``. ``errors`` collects violations as
    (clause, detail). '''

    def __init__(self, name):
        self.name = name
        self.errors = []
        self.phase = 'contact'  # contact -> init -> established
        self.term_sent = False
        self.peer_mru = None
        # own transfers
        self.cur_tid = None
        self.cur_len = 0
        self.cur_total = None
        self.used_tids = set()
        self.last_tid = None
        # peer segments awaiting acknowledgement: list of (tid, flags, cumulative length)
        self.peer_segments = []
        self.peer_cur = None
        self.acks_sent = 0
        self.transfers_done = []

    def _err(self, clause, detail):
        self.errors.append((clause, detail))

    def peer_sent(self, msg):
        kind = msg['kind']
        if kind == 'SESS_INIT':
            self.peer_mru = msg['segment_mru']
        elif kind == 'XFER_SEGMENT':
            if msg['flags'] & FLAG_START:
                self.peer_cur = [msg['transfer_id'], 0]
            if self.peer_cur is None or self.peer_cur[0] != msg['transfer_id']:
                # peer misbehaves; nothing to expect from us
                self.peer_cur = None
                return
            self.peer_cur[1] += len(msg['data'])
            self.peer_segments.append((msg['transfer_id'], msg['flags'], self.peer_cur[1]))
            if msg['flags'] & FLAG_END:
                self.peer_cur = None

    def sent(self, msg):
        kind = msg['kind']
        if self.phase == 'contact':
            if kind != 'CONTACT':
                self._err('order', 'first output is %s, not a contact header' % kind)
            self.phase = 'init'
            return
        if kind == 'CONTACT':
            self._err('order', 'second contact header')
            return
        if self.phase == 'init':
            if kind != 'SESS_INIT':
                self._err('order', '%s before SESS_INIT' % kind)
            else:
                self.phase = 'established'
            if kind == 'SESS_INIT':
                return
        elif kind == 'SESS_INIT':
            self._err('order', 'second SESS_INIT')
            return
        if kind == 'SESS_TERM':
            if self.term_sent:
                self._err('term', 'second SESS_TERM')
            self.term_sent = True
            return
        if kind == 'XFER_SEGMENT':
            self._segment(msg)
        elif kind == 'XFER_ACK':
            self._ack(msg)

    def _segment(self, msg):
        flags = msg['flags']
        tid = msg['transfer_id']
        dlen = len(msg['data'])
        if self.peer_mru is not None and dlen > self.peer_mru:
            self._err('mru', 'segment of %d octets exceeds peer segment MRU %d' % (dlen, self.peer_mru))
        if flags & FLAG_START:
            if self.cur_tid is not None:
                self._err('contiguous', 'START of %d while transfer %d is unfinished' % (tid, self.cur_tid))
            if self.term_sent:
                self._err('term', 'transfer %d started after own SESS_TERM' % tid)
            if tid in self.used_tids:
                self._err('id-reuse', 'transfer id %d reused' % tid)
            self.used_tids.add(tid)
            self.cur_tid = tid
            self.cur_len = 0
            self.cur_total = None
            totals = [ext for ext in msg['ext'] if ext['type'] == EXT_XFER_LENGTH]
            if len(totals) != 1 or len(totals[0]['value']) != 8:
                self._err('length-ext', 'START of %d without exactly one total-length extension' % tid)
            else:
                self.cur_total = struct.unpack('!Q', totals[0]['value'])[0]
        else:
            if msg.get('ext'):
                self._err('length-ext', 'extension items on non-START segment')
            if self.cur_tid is None:
                self._err('contiguous', 'non-START segment of %d with no transfer in progress' % tid)
                return
            if tid != self.cur_tid:
                self._err('contiguous', 'segment of %d inside transfer %d' % (tid, self.cur_tid))
                return
        self.cur_len += dlen
        if flags & FLAG_END:
            if self.cur_total is not None and self.cur_total != self.cur_len:
                self._err('length-ext', 'transfer %d announced %d octets but carried %d' % (
                    tid, self.cur_total, self.cur_len))
            self.transfers_done.append((tid, self.cur_len))
            self.cur_tid = None
        elif self.cur_total is not None and self.cur_len >= self.cur_total and self.cur_total > 0:
            self._err('end-flag', 'transfer %d carried all %d octets without END' % (tid, self.cur_total))

    def _ack(self, msg):
        if self.acks_sent >= len(self.peer_segments):
            self._err('ack', 'XFER_ACK %d/%d with no segment to answer' % (msg['transfer_id'], msg['length']))
            self.acks_sent += 1
            return
        (tid, flags, cum) = self.peer_segments[self.acks_sent]
        self.acks_sent += 1
        if msg['transfer_id'] != tid:
            self._err('ack', 'ACK for transfer %d answers segment of %d' % (msg['transfer_id'], tid))
        if msg['flags'] != flags:
            self._err('ack', 'ACK flags 0x%x differ from segment flags 0x%x' % (msg['flags'], flags))
        if msg['length'] != cum:
            self._err('ack', 'ACK length %d but cumulative received %d' % (msg['length'], cum))
