''' Independent BPv7 (RFC 9171) bundle decoder / encoder over raw CBOR items.

Uses cbor2 only as a generic CBOR codec for single items; item boundaries are
found by the small scanner below so that every block's byte range in the
encoding is known (needed to classify where an injected bit flip landed).
'''
import struct

import cbor2

from . import crc as refcrc

FLAG_IS_FRAGMENT = 0x000001
FLAG_ADMIN = 0x000002
FLAG_NO_FRAGMENT = 0x000004
FLAG_USER_ACK = 0x000020
FLAG_STATUS_TIME = 0x000040
FLAG_RPT_RECEPTION = 0x004000
FLAG_RPT_FORWARD = 0x010000
FLAG_RPT_DELIVERY = 0x020000
FLAG_RPT_DELETION = 0x040000
RPT_FLAGS = FLAG_RPT_RECEPTION | FLAG_RPT_FORWARD | FLAG_RPT_DELIVERY | FLAG_RPT_DELETION

BLK_REPLICATE = 0x01

TYPE_PAYLOAD = 1
TYPE_PREV_NODE = 6
TYPE_AGE = 7
TYPE_HOP_COUNT = 10
TYPE_BIB = 11
TYPE_BCB = 12


class Malformed(Exception):
    pass


# -- CBOR item scanner --------------------------------------------------------
def item_end(data, pos):
    ''' Offset just past the CBOR data item starting at pos. '''
    if pos >= len(data):
        raise Malformed('truncated CBOR')
    head = data[pos]
    major = head >> 5
    info = head & 0x1F
    pos += 1
    if info < 24:
        arg = info
    elif info == 24:
        arg = data[pos] if pos < len(data) else None
        pos += 1
    elif info == 25:
        arg = int.from_bytes(data[pos:pos + 2], 'big')
        pos += 2
    elif info == 26:
        arg = int.from_bytes(data[pos:pos + 4], 'big')
        pos += 4
    elif info == 27:
        arg = int.from_bytes(data[pos:pos + 8], 'big')
        pos += 8
    elif info == 31:
        arg = None
    else:
        raise Malformed('reserved additional info')
    if pos > len(data):
        raise Malformed('truncated CBOR head')
    if major in (0, 1):
        if arg is None:
            raise Malformed('indefinite integer')
        return pos
    if major in (2, 3):
        if arg is None:
            while True:
                if pos >= len(data):
                    raise Malformed('truncated indefinite string')
                if data[pos] == 0xFF:
                    return pos + 1
                pos = item_end(data, pos)
        if pos + arg > len(data):
            raise Malformed('truncated string')
        return pos + arg
    if major in (4, 5):
        count = arg
        mult = 1 if major == 4 else 2
        if count is None:
            while True:
                if pos >= len(data):
                    raise Malformed('truncated indefinite container')
                if data[pos] == 0xFF:
                    return pos + 1
                pos = item_end(data, pos)
        for _ in range(count * mult):
            pos = item_end(data, pos)
        return pos
    if major == 6:
        return item_end(data, pos)
    # major 7: simple / float
    if info == 31:
        raise Malformed('unexpected break')
    return pos


def eid_to_text(eid):
    if not isinstance(eid, list) or len(eid) != 2:
        raise Malformed('EID is not a 2-array')
    (scheme, ssp) = eid
    if scheme == 1:
        if ssp == 0:
            return 'dtn:none'
        if not isinstance(ssp, str):
            raise Malformed('dtn SSP is not text')
        return 'dtn:' + ssp
    if scheme == 2:
        if not isinstance(ssp, list) or not all(isinstance(part, int) for part in ssp):
            raise Malformed('ipn SSP is not an array of uint')
        return 'ipn:' + '.'.join(str(part) for part in ssp)
    raise Malformed('unknown EID scheme %r' % (scheme,))


def text_to_eid(text):
    if text in (None, 'dtn:none'):
        return [1, 0]
    if text.startswith('dtn:'):
        return [1, text[4:]]
    if text.startswith('ipn:'):
        return [2, [int(part) for part in text[4:].split('.')]]
    raise ValueError(text)


def block_crc_ok(raw, crc_type):
    ''' Recompute the CRC of one block from its raw encoding. '''
    if crc_type == 0:
        return True
    width = {1: 2, 2: 4}.get(crc_type)
    if width is None:
        return False
    if len(raw) < width + 1 or raw[-width - 1] != (0x40 | width):
        return False
    zeroed = raw[:-width] + bytes(width)
    have = int.from_bytes(raw[-width:], 'big')
    want = refcrc.crc16_x25(zeroed) if crc_type == 1 else refcrc.crc32c(zeroed)
    return have == want


def decode_bundle(data):
    ''' Returns dict(primary=dict, blocks=[dict], ranges). Raises Malformed. '''
    try:
        return _decode_bundle(data)
    except Malformed:
        raise
    except (TypeError, ValueError, IndexError, KeyError, AttributeError, OverflowError, RecursionError) as err:
        raise Malformed('ill-typed bundle structure: %s: %s' % (type(err).__name__, err))


def _decode_bundle(data):
    data = bytes(data)
    if len(data) < 3 or data[0] != 0x9F:
        raise Malformed('bundle is not an indefinite-length array')
    pos = 1
    items = []
    while True:
        if pos >= len(data):
            raise Malformed('missing break')
        if data[pos] == 0xFF:
            pos += 1
            break
        end = item_end(data, pos)
        items.append((pos, end))
        pos = end
    if pos != len(data):
        raise Malformed('%d octets after the bundle' % (len(data) - pos))
    if len(items) < 2:
        raise Malformed('bundle needs a primary and a payload block')
    out = dict(blocks=[], size=len(data))
    for (index, (beg, end)) in enumerate(items):
        raw = data[beg:end]
        if raw[0] >> 5 != 4 or raw[0] & 0x1F == 31:
            raise Malformed('block %d is not a definite-length array' % index)
        try:
            arr = cbor2.loads(raw)
        except Exception as err:
            raise Malformed('block %d undecodable: %s' % (index, err))
        if index == 0:
            if not 8 <= len(arr) <= 11:
                raise Malformed('primary block has %d items' % len(arr))
            (version, flags, crc_type, dest, src, rpt, cts, lifetime) = arr[:8]
            rest = list(arr[8:])
            pri = dict(version=version, flags=flags, crc_type=crc_type, destination=eid_to_text(dest), source=eid_to_text(src),
                       report_to=eid_to_text(rpt), create_time=cts[0], seqno=cts[1], lifetime=lifetime,
                       frag_offset=None, total_adu_len=None, raw=raw, range=(beg, end))
            for (fname, fval) in (('version', version), ('flags', flags), ('crc_type', crc_type), ('create_time', cts[0]),
                                  ('seqno', cts[1]), ('lifetime', lifetime)):
                if not isinstance(fval, int) or isinstance(fval, bool) or fval < 0:
                    raise Malformed('primary %s is not an unsigned integer' % fname)
            if len(cts) != 2:
                raise Malformed('creation timestamp is not a 2-array')
            if flags & FLAG_IS_FRAGMENT:
                if len(rest) < 2:
                    raise Malformed('fragment without offset/length')
                pri['frag_offset'] = rest.pop(0)
                pri['total_adu_len'] = rest.pop(0)
            if crc_type != 0:
                if len(rest) != 1 or not isinstance(rest[0], bytes):
                    raise Malformed('primary CRC field missing')
                pri['crc'] = rest.pop(0)
            if rest:
                raise Malformed('primary block has surplus items')
            pri['crc_ok'] = block_crc_ok(raw, crc_type)
            out['primary'] = pri
        else:
            if not 5 <= len(arr) <= 6:
                raise Malformed('canonical block has %d items' % len(arr))
            (btype, num, flags, crc_type, btsd) = arr[:5]
            if not isinstance(btsd, bytes):
                raise Malformed('BTSD is not a byte string')
            for (fname, fval) in (('type', btype), ('num', num), ('flags', flags), ('crc_type', crc_type)):
                if not isinstance(fval, int) or isinstance(fval, bool) or fval < 0:
                    raise Malformed('canonical %s is not an unsigned integer' % fname)
            blk = dict(type=btype, num=num, flags=flags, crc_type=crc_type, btsd=btsd, raw=raw, range=(beg, end))
            if crc_type != 0:
                if len(arr) != 6 or not isinstance(arr[5], bytes):
                    raise Malformed('canonical CRC field missing')
                blk['crc'] = arr[5]
            elif len(arr) != 5:
                raise Malformed('CRC field present with CRC type 0')
            blk['crc_ok'] = block_crc_ok(raw, crc_type)
            # where the BTSD content sits inside the bundle encoding
            head_len = _prefix_len(raw, 4)
            bstr_head = _head_len(raw, head_len)
            blk['btsd_range'] = (beg + head_len + bstr_head, beg + head_len + bstr_head + len(btsd))
            out['blocks'].append(blk)
    if out['blocks'][-1]['type'] != TYPE_PAYLOAD:
        raise Malformed('payload block is not last')
    return out


def _head_len(raw, pos):
    info = raw[pos] & 0x1F
    return 1 + {24: 1, 25: 2, 26: 4, 27: 8}.get(info, 0)


def _prefix_len(raw, nitems):
    ''' Offset inside an array encoding just past its first nitems items. '''
    pos = _head_len(raw, 0)
    for _ in range(nitems):
        pos = item_end(raw, pos)
    return pos


def ident(pri):
    base = (pri['source'], pri['create_time'], pri['seqno'])
    if pri['flags'] & FLAG_IS_FRAGMENT:
        return base + (pri['frag_offset'], pri['total_adu_len'])
    return base


def payload(bundle):
    return bundle['blocks'][-1]['btsd']


# -- encoder ----------------------------------------------------------------------
def _wide_uint(val):
    ''' A legal but not shortest-form encoding of an unsigned integer (one head size up). '''
    if val < 24:
        return b'\x18' + bytes([val])
    if val < 1 << 8:
        return b'\x19' + val.to_bytes(2, 'big')
    if val < 1 << 16:
        return b'\x1a' + val.to_bytes(4, 'big')
    return b'\x1b' + val.to_bytes(8, 'big')


def _dumps_array(arr, wide=()):
    ''' Definite-length array; the items whose index is in ``wide`` (unsigned integers) get a wider head than necessary. '''
    if not wide:
        return cbor2.dumps(arr)
    assert len(arr) < 24
    return bytes([0x80 | len(arr)]) + b''.join(
        _wide_uint(item) if ix in wide and isinstance(item, int) and 0 <= item < 1 << 32 else cbor2.dumps(item) for (ix, item) in enumerate(arr))


def _with_crc(arr, crc_type, wide=()):
    if crc_type == 0:
        return _dumps_array(arr, wide)
    width = 2 if crc_type == 1 else 4
    raw = _dumps_array(arr + [bytes(width)], wide)
    val = refcrc.crc16_x25(raw) if crc_type == 1 else refcrc.crc32c(raw)
    return raw[:-width] + val.to_bytes(width, 'big')


def encode_primary(pri):
    arr = [pri.get('version', 7), pri['flags'], pri['crc_type'], text_to_eid(pri['destination']), text_to_eid(pri['source']),
           text_to_eid(pri.get('report_to')), [pri['create_time'], pri['seqno']], pri.get('lifetime', 3600000)]
    if pri['flags'] & FLAG_IS_FRAGMENT:
        arr += [pri['frag_offset'], pri['total_adu_len']]
    return _with_crc(arr, pri['crc_type'], pri.get('wide', ()))


def encode_block(blk):
    return _with_crc([blk['type'], blk['num'], blk.get('flags', 0), blk.get('crc_type', 0), bytes(blk['btsd'])], blk.get('crc_type', 0), blk.get('wide', ()))


def encode_bundle(pri, blocks):
    return b'\x9f' + encode_primary(pri) + b''.join(encode_block(blk) for blk in blocks) + b'\xff'


def reencode(bundle, primary_changes=None, block_changes=None):
    ''' Re-encode a decoded bundle with field changes and fresh CRCs.
    block_changes: {block number: {field: value}} '''
    pri = dict(bundle['primary'])
    pri.update(primary_changes or {})
    blocks = []
    for blk in bundle['blocks']:
        new = dict(blk)
        new.update((block_changes or {}).get(blk['num'], {}))
        blocks.append(new)
    return encode_bundle(pri, blocks)


def fragment(pri, blocks, cuts):
    ''' Reference fragmenter: cuts = sorted payload offsets (may overlap when
    given as (start, end) pairs). Returns encoded fragments. '''
    body = blocks[-1]['btsd']
    total = len(body)
    pieces = []
    if cuts and isinstance(cuts[0], (tuple, list)):
        pieces = [tuple(cut) for cut in cuts]
    else:
        edges = [0] + list(cuts) + [total]
        pieces = list(zip(edges, edges[1:]))
    out = []
    for (start, end) in pieces:
        fpri = dict(pri, flags=pri['flags'] | FLAG_IS_FRAGMENT, frag_offset=start, total_adu_len=total)
        fblocks = []
        for blk in blocks[:-1]:
            if start == 0 or blk.get('flags', 0) & BLK_REPLICATE:
                fblocks.append(dict(blk))
        fblocks.append(dict(blocks[-1], btsd=body[start:end]))
        out.append(encode_bundle(fpri, fblocks))
    return out


# -- administrative records --------------------------------------------------------
def decode_status_report(btsd):
    ''' Payload of an administrative-record bundle -> dict, or Malformed. '''
    try:
        rec = cbor2.loads(btsd)
    except Exception as err:
        raise Malformed('admin record undecodable: %s' % err)
    if not isinstance(rec, list) or len(rec) != 2 or rec[0] != 1:
        raise Malformed('not a status report record')
    body = rec[1]
    if not isinstance(body, list) or not 4 <= len(body) <= 6:
        raise Malformed('status report has %d items' % (len(body) if isinstance(body, list) else -1))
    (status, reason, src, cts) = body[:4]
    if not isinstance(status, list) or len(status) != 4:
        raise Malformed('status info array')
    names = ('received', 'forwarded', 'delivered', 'deleted')
    out = dict(reason=reason, subject_source=eid_to_text(src), subject_time=cts[0], subject_seqno=cts[1], asserted={}, times={})
    for (name, info) in zip(names, status):
        if not isinstance(info, list) or not 1 <= len(info) <= 2 or not isinstance(info[0], bool):
            raise Malformed('status info item')
        if info[0]:
            out['asserted'][name] = True
            if len(info) == 2:
                out['times'][name] = info[1]
        elif len(info) == 2:
            raise Malformed('time on an unasserted status')
    if len(body) > 4:
        out['frag_offset'] = body[4]
        out['frag_len'] = body[5] if len(body) > 5 else None
    return out
