''' The C15 decision table as a pure function, written from the property
statement and RFC 9174 section 4.4 - not from the code (DESIGN 5/C15).
'''


def attempt_tls(a_enable, p_enable):
    ''' TLS is attempted exactly when both contact headers offer it. '''
    return bool(a_enable and p_enable)


def requirement_ok(require_tls, attempt, secured):
    ''' None = no requirement; True = must be secured; False = must be clear. '''
    if require_tls is None:
        return True
    return attempt == require_tls and secured == require_tls


def evaluate_peer(cert, peer_ip, peer_dns, peer_nodeid, require_host_authn, require_node_authn):
    ''' cert: None or dict(ip=[...], dns=[...], uri=[...]) of the SANs the peer
    presented. Returns dict(ok, authn_ip, authn_dns, authn_nodeid) where each
    authn value is the matched id, False (present but different) or None (absent). '''
    sans = cert or dict(ip=[], dns=[], uri=[])

    def match(ref, ids):
        if not ids:
            return None
        return ref if ref in ids else False

    authn_ip = match(peer_ip, sans.get('ip', []))
    authn_dns = match(peer_dns, sans.get('dns', [])) if peer_dns is not None else (None if not sans.get('dns') else False)
    authn_nid = match(peer_nodeid, sans.get('uri', []))
    contradicts = (authn_ip is False) or (peer_dns is not None and authn_dns is False) or (authn_nid is False)
    host_ok = bool(authn_ip) or (peer_dns is not None and bool(authn_dns))
    node_ok = bool(authn_nid)
    okay = (not contradicts) and (host_ok or not require_host_authn) and (node_ok or not require_node_authn)
    return dict(ok=okay, authn_ip=authn_ip, authn_dns=authn_dns if peer_dns is not None else None, authn_nodeid=authn_nid)


def predict(side_cfg, peer_cfg, peer_cert, handshake_fail, peer_ip, peer_dns):
    ''' Expected observable outcome for one endpoint.
    Returns dict(sess_init=bool|None, established=bool, term_reason=None|4, secure=bool, why=str)
    sess_init None means "either" (depends on what the peer does first). '''
    attempt = attempt_tls(side_cfg['tls_enable'], peer_cfg['tls_enable'])
    req = side_cfg.get('require_tls')
    if req is not None and attempt != req:
        return dict(sess_init=False, established=False, term_reason=None, secure=False, why='tls-attempt-violates-policy')
    if attempt and handshake_fail:
        return dict(sess_init=False, established=False, term_reason=None, secure=False, why='handshake-failed')
    peer_req = peer_cfg.get('require_tls')
    peer_proceeds = peer_req is None or attempt == peer_req
    if not attempt:
        return dict(sess_init=None if not peer_proceeds else True, established=peer_proceeds, term_reason=None,
                    secure=False, why='clear-session' if peer_proceeds else 'peer-refuses')
    if not peer_proceeds:
        return dict(sess_init=None, established=False, term_reason=None, secure=None, why='peer-refuses')
    res = evaluate_peer(peer_cert, peer_ip, peer_dns, peer_cfg['node_id'],
                        side_cfg.get('require_host_authn'), side_cfg.get('require_node_authn'))
    if res['ok']:
        return dict(sess_init=True, established=True, term_reason=None, secure=True, why='secured-session', authn=res)
    return dict(sess_init=None, established=False, term_reason=4, secure=True, why='contact-failure', authn=res)
