''' Independent UDPCL datagram codec (draft-ietf-dtn-udpcl): a datagram is a
sequence of messages, each one of: padding (0x00 to the end), a BPv7 bundle
(CBOR array), or an extension map (CBOR map) whose key 2 carries a transfer
segment [transfer id, total length, fragment offset, fragment data].
'''
import io

import cbor2

from . import rfc9171

EXT_TRANSFER = 2


class Malformed(Exception):
    pass


def split_messages(data):
    ''' Returns list of ('bundle', bytes) | ('extmap', dict) | ('padding', n). '''
    out = []
    pos = 0
    data = bytes(data)
    while pos < len(data):
        first = data[pos]
        if first == 0x00:
            out.append(('padding', len(data) - pos))
            break
        major = first >> 5
        try:
            end = rfc9171.item_end(data, pos)
        except rfc9171.Malformed as err:
            raise Malformed(str(err))
        if major == 4:
            out.append(('bundle', data[pos:end]))
        elif major == 5:
            out.append(('extmap', cbor2.loads(data[pos:end])))
        else:
            raise Malformed('unknown message with first octet 0x%02x' % first)
        pos = end
    return out


def segment(transfer_id, total, offset, chunk):
    return cbor2.dumps({EXT_TRANSFER: [transfer_id, total, offset, bytes(chunk)]})


def make_segments(transfer_id, body, cuts):
    edges = [0] + list(cuts) + [len(body)]
    return [segment(transfer_id, len(body), lo, body[lo:hi]) for (lo, hi) in zip(edges, edges[1:])]
