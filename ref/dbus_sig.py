''' D-Bus signature parser and a model of dbus-python's ``Message.append``
marshalling rules (DESIGN 3, 2.6).

Conservative: :func:`marshal` raises exactly where real dbus-python 1.3.2
raises (verified by differential test against /usr/bin/python3 in
selftest/fidelity_dbus.py), and returns the value as the receiver would see
it (dbus types).
'''

BASIC = set('ybnqiuxtdsogh')
INT_RANGES = {
    'y': (0, 2**8 - 1),
    'n': (-2**15, 2**15 - 1),
    'q': (0, 2**16 - 1),
    'i': (-2**31, 2**31 - 1),
    'u': (0, 2**32 - 1),
    'x': (-2**63, 2**63 - 1),
    't': (0, 2**64 - 1),
    'h': (0, 2**32 - 1),
}


class SignatureError(ValueError):
    pass


def parse_one(sig, pos=0):
    ''' Parse one complete type starting at pos; return (tree, newpos).
    tree: basic char | ('a', tree) | ('(', [trees]) | ('{', key, val) | 'v'
    '''
    if pos >= len(sig):
        raise SignatureError('truncated signature')
    char = sig[pos]
    if char in BASIC or char == 'v':
        return (char, pos + 1)
    if char == 'a':
        (sub, newpos) = parse_one(sig, pos + 1)
        return (('a', sub), newpos)
    if char == '(':
        items = []
        pos += 1
        while pos < len(sig) and sig[pos] != ')':
            (sub, pos) = parse_one(sig, pos)
            items.append(sub)
        if pos >= len(sig) or not items:
            raise SignatureError('bad struct')
        return (('(', items), pos + 1)
    if char == '{':
        (key, pos) = parse_one(sig, pos + 1)
        if not (isinstance(key, str) and key in BASIC):
            raise SignatureError('dict key must be basic')
        (val, pos) = parse_one(sig, pos)
        if pos >= len(sig) or sig[pos] != '}':
            raise SignatureError('bad dict entry')
        return (('{', key, val), pos + 1)
    raise SignatureError('bad type char %r' % char)


def parse(sig):
    ''' List of complete types in a signature. '''
    out = []
    pos = 0
    while pos < len(sig):
        (tree, pos) = parse_one(sig, pos)
        out.append(tree)
    return out


def _valid_path(val):
    if not isinstance(val, str) or not val.startswith('/'):
        return False
    if val == '/':
        return True
    if val.endswith('/'):
        return False
    for part in val[1:].split('/'):
        if not part:
            return False
        for char in part:
            if not (char.isascii() and (char.isalnum() or char == '_')):
                return False
    return True


def guess_signature(val):
    ''' dbus-python's signature guess for a variant. '''
    # local import to avoid cycles: only class names matter
    tname = type(val).__name__
    variant_level = getattr(val, 'variant_level', 0)
    del variant_level
    dbus_map = {
        'Byte': 'y', 'Boolean': 'b', 'Int16': 'n', 'UInt16': 'q', 'Int32': 'i',
        'UInt32': 'u', 'Int64': 'x', 'UInt64': 't', 'Double': 'd', 'String': 's',
        'ObjectPath': 'o', 'Signature': 'g', 'ByteArray': 'ay', 'UTF8String': 's',
    }
    if type(val).__module__.startswith(('dbus', 'dsim', '_dbus')) and tname in dbus_map:
        return dbus_map[tname]
    if isinstance(val, bool):
        return 'b'
    if isinstance(val, int):
        return 'i'
    if isinstance(val, float):
        return 'd'
    if isinstance(val, str):
        return 's'
    if isinstance(val, (bytes, bytearray)):
        return 'ay'
    if isinstance(val, dict):
        sig = getattr(val, 'signature', None)
        if sig:
            return 'a{%s}' % sig
        if not val:
            return 'a{sv}'  # dbus-python guesses from first item; empty dict -> error in reality?
        (key, item) = next(iter(val.items()))
        return 'a{%s%s}' % (guess_signature(key), guess_signature(item))
    if isinstance(val, tuple):
        return '(%s)' % ''.join(guess_signature(item) for item in val)
    if isinstance(val, list):
        sig = getattr(val, 'signature', None)
        if sig:
            return 'a%s' % sig
        if not val:
            raise ValueError('Unable to guess signature from an empty list')
        return 'a' + guess_signature(val[0])
    raise TypeError("Don't know which D-Bus type to use to encode type \"%s\"" % tname)


def marshal_one(tree, val, types):
    ''' Marshal one value by a parsed type; return the receiver-side value.
    ``types`` is the fake dbus module namespace providing the dbus classes. '''
    if isinstance(tree, str):
        if tree in INT_RANGES:
            if isinstance(val, (bytes, bytearray)) and tree == 'y':
                if len(val) != 1:
                    raise ValueError('Expected a length-1 bytes but found %d bytes' % len(val))
                num = val[0]
            else:
                if isinstance(val, bool):
                    num = int(val)
                elif isinstance(val, (int, float)):
                    num = int(val)
                elif isinstance(val, str):
                    # PyNumber_Long accepts numeric strings
                    num = int(val)
                else:
                    raise TypeError('an integer is required (got type %s)' % type(val).__name__)
            (low, high) = INT_RANGES[tree]
            if num < low or num > high:
                raise OverflowError('Value %d out of range for D-Bus type %s' % (num, tree))
            cls = {'y': types.Byte, 'n': types.Int16, 'q': types.UInt16, 'i': types.Int32,
                   'u': types.UInt32, 'x': types.Int64, 't': types.UInt64, 'h': types.UInt32}[tree]
            return cls(num)
        if tree == 'b':
            return types.Boolean(bool(val))
        if tree == 'd':
            if isinstance(val, (int, float)) or hasattr(val, '__float__'):
                return types.Double(float(val))
            raise TypeError('a float is required (got type %s)' % type(val).__name__)
        if tree in 'sog':
            if isinstance(val, (bytes, bytearray)):
                try:
                    val = bytes(val).decode('utf8')
                except UnicodeDecodeError:
                    raise UnicodeError('String parameters to be sent over D-Bus must be valid UTF-8')
            elif not isinstance(val, str):
                raise TypeError('Expected a string or unicode object')
            if '\x00' in val:
                raise ValueError('embedded null character')
            if tree == 'o':
                if not _valid_path(val):
                    raise ValueError('Invalid object path %r' % val)
                return types.ObjectPath(val)
            if tree == 'g':
                parse(val)
                return types.Signature(val)
            return types.String(val)
        if tree == 'v':
            if val is None:
                raise TypeError("Don't know which D-Bus type to use to encode type \"NoneType\"")
            sig = guess_signature(val)
            trees = parse(sig)
            if len(trees) != 1:
                raise TypeError('variant must hold one complete type')
            inner = marshal_one(trees[0], val, types)
            try:
                inner.variant_level = getattr(inner, 'variant_level', 0) + 1
            except AttributeError:
                pass
            return inner
        raise SignatureError('bad basic type')
    kind = tree[0]
    if kind == 'a':
        sub = tree[1]
        if isinstance(sub, tuple) and sub[0] == '{':
            if not hasattr(val, 'items') and not hasattr(val, 'keys'):
                raise TypeError('a dict is required for a{..}')
            out = types.Dictionary(signature=_unparse(sub[1]) + _unparse(sub[2]))
            for (key, item) in val.items():
                out[marshal_one(sub[1], key, types)] = marshal_one(sub[2], item, types)
            return out
        if sub == 'y' and isinstance(val, (bytes, bytearray)):
            return types.Array([types.Byte(byt) for byt in bytes(val)], signature='y')
        if isinstance(val, str):
            # a str iterates into length-1 strings
            items = list(val)
        else:
            try:
                items = list(iter(val))
            except TypeError:
                raise TypeError('an iterable is required for an array')
        return types.Array([marshal_one(sub, item, types) for item in items], signature=_unparse(sub))
    if kind == '(':
        try:
            items = list(val)
        except TypeError:
            raise TypeError('a sequence is required for a struct')
        if len(items) != len(tree[1]):
            raise TypeError('struct arity mismatch')
        return types.Struct(tuple(marshal_one(sub, item, types) for (sub, item) in zip(tree[1], items)))
    raise SignatureError('bad tree')


def _unparse(tree):
    if isinstance(tree, str):
        return tree
    if tree[0] == 'a':
        return 'a' + _unparse(tree[1])
    if tree[0] == '(':
        return '(' + ''.join(_unparse(sub) for sub in tree[1]) + ')'
    return '{' + _unparse(tree[1]) + _unparse(tree[2]) + '}'


def marshal(sig, args, types):
    ''' Marshal an argument tuple against a signature. '''
    trees = parse(sig)
    if len(trees) != len(args):
        raise TypeError('More items found in D-Bus signature than in Python arguments'
                        if len(trees) > len(args) else
                        'Fewer items found in D-Bus signature than in Python arguments')
    return tuple(marshal_one(tree, val, types) for (tree, val) in zip(trees, args))


def conforms(sig, args, types):
    ''' None when marshalling succeeds, else the exception text. '''
    try:
        marshal(sig, args, types)
        return None
    except (TypeError, ValueError, OverflowError, UnicodeError) as err:
        return '%s: %s' % (type(err).__name__, err)
