''' Bitwise CRC-16/X.25 and CRC-32C (Castagnoli), independent of the shim's
table-driven implementation. Pinned to the catalogue check values. '''


def _crc_reflected(data, poly, init, xorout, width):
    reg = init
    for byte in bytes(data):
        reg ^= byte
        for _ in range(8):
            if reg & 1:
                reg = (reg >> 1) ^ poly
            else:
                reg >>= 1
    return (reg ^ xorout) & ((1 << width) - 1)


def crc16_x25(data):
    return _crc_reflected(data, 0x8408, 0xFFFF, 0xFFFF, 16)


def crc32c(data):
    return _crc_reflected(data, 0x82F63B78, 0xFFFFFFFF, 0xFFFFFFFF, 32)


assert crc16_x25(b'123456789') == 0x906E
assert crc32c(b'123456789') == 0xE3069283
