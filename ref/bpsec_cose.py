''' Independent construction of BPSec COSE-context security blocks
(RFC 9172 abstract security block + draft-ietf-bpsec-cose external AAD +
RFC 9052 COSE_Mac0 / COSE_Encrypt0), using hmac / hashlib / cbor2 and the
AES-GCM and AES-KW primitives of ``cryptography``; no pycose, no repo code.
Cross-checked against the third-party interop vectors shipped in
/repo/src/bp/test/data (selftest fidelity).
'''
import hashlib
import hmac

import cbor2

from . import rfc9171

CTX_COSE = 3
AAD_METADATA = 1
AAD_BTSD = 2

HMAC_ALGS = {5: ('sha256', 32), 6: ('sha384', 48), 7: ('sha512', 64)}
GCM_ALGS = {1: 16, 3: 32}
KW_ALGS = {-3: 16, -5: 32}

COSE_MAC0 = 17
COSE_MAC = 97
COSE_ENC0 = 16
COSE_ENC = 96
COSE_SIGN1 = 18


class AsbError(Exception):
    pass


def _seq_items(data):
    ''' Split a CBOR sequence into decoded items. '''
    out = []
    pos = 0
    while pos < len(data):
        end = rfc9171.item_end(data, pos)
        out.append(cbor2.loads(data[pos:end]))
        pos = end
    return out


def parse_asb(btsd):
    ''' Abstract security block fields from BTSD (a CBOR sequence). '''
    try:
        items = _seq_items(btsd)
        targets = items[0]
        ctx = items[1]
        flags = items[2]
        source = rfc9171.eid_to_text(items[3])
        pos = 4
        params = []
        if flags & 1:
            params = [(pair[0], pair[1]) for pair in items[pos]]
            pos += 1
        results = [[(pair[0], pair[1]) for pair in tgt] for tgt in items[pos]]
        return dict(targets=list(targets), context_id=ctx, flags=flags, source=source, source_raw=items[3], params=params, results=results)
    except (IndexError, TypeError, ValueError, KeyError, AttributeError, OverflowError, RecursionError, rfc9171.Malformed, cbor2.CBORDecodeError) as err:
        raise AsbError('malformed abstract security block: %s' % err)


def encode_asb(targets, source, params, results, context_id=CTX_COSE, flags=None):
    ''' params: list of (id, value); results: per target a list of (id, value). '''
    if flags is None:
        flags = 1 if params else 0
    out = cbor2.dumps(list(targets)) + cbor2.dumps(context_id) + cbor2.dumps(flags) + cbor2.dumps(rfc9171.text_to_eid(source))
    if flags & 1:
        out += cbor2.dumps([[pid, val] for (pid, val) in params])
    out += cbor2.dumps([[[rid, val] for (rid, val) in tgt] for tgt in results])
    return out


def _canon_map(mapping):
    ''' Canonical (RFC 8949 core deterministic) encoding of an int-keyed map. '''
    return cbor2.dumps(mapping, canonical=True)


def external_aad(bundle, sec_blk, tgt_blk, scope, source_raw, addl_protected):
    ''' External AAD: encoded security source, encoded AAD-scope map, then for
    each scope entry in deterministic key order the selected block parts, then
    the additional-protected parameter as a byte string.
    ``bundle`` is a reference-decoded bundle (dict); sec_blk / tgt_blk are block
    dicts with type, num, flags, btsd. '''
    scope_enc = _canon_map(scope)
    order = list(cbor2.loads(scope_enc).keys())
    out = cbor2.dumps(source_raw) + scope_enc
    for key in order:
        flags = scope[key]
        if key == 0:
            if flags & AAD_METADATA:
                out += bundle['primary']['raw']
            continue
        if key == -1:
            blk = tgt_blk
        elif key == -2:
            blk = sec_blk
        else:
            found = [item for item in bundle['blocks'] if item['num'] == key]
            if not found:
                raise AsbError('AAD scope names a block number that is absent')
            blk = found[0]
        if flags & AAD_METADATA:
            out += cbor2.dumps(blk['type']) + cbor2.dumps(blk['num']) + cbor2.dumps(blk.get('flags', 0))
        if flags & AAD_BTSD:
            out += cbor2.dumps(bytes(blk['btsd']))
    out += cbor2.dumps(bytes(addl_protected))
    return out


def mac0_tag(key, alg, protected, ext_aad, payload):
    (hname, size) = HMAC_ALGS[alg]
    structure = cbor2.dumps(['MAC0', bytes(protected), bytes(ext_aad), bytes(payload)])
    return hmac.new(key, structure, getattr(hashlib, hname)).digest()[:size]


def mac_tag(key, alg, protected, ext_aad, payload):
    (hname, size) = HMAC_ALGS[alg]
    structure = cbor2.dumps(['MAC', bytes(protected), bytes(ext_aad), bytes(payload)])
    return hmac.new(key, structure, getattr(hashlib, hname)).digest()[:size]


def scope_and_protected(asb):
    scope = {0: 1, -1: 1, -2: 1}
    addl = b''
    for (pid, val) in asb['params']:
        if pid == 5:
            scope = dict(val)
        elif pid == 3:
            addl = bytes(val)
    return (scope, addl)


def verify_bib(bundle, bib_blk, keys):
    ''' Independent verification of a BIB with COSE_Mac0 / COSE_Mac / COSE_Sign1 results.
    keys: {kid bytes: key bytes}. Returns list of per-target booleans. '''
    asb = parse_asb(bib_blk['btsd'])
    (scope, addl) = scope_and_protected(asb)
    out = []
    for (tix, tnum) in enumerate(asb['targets']):
        tgt = [blk for blk in bundle['blocks'] if blk['num'] == tnum]
        okay = False
        if tgt and len(asb['results'][tix]) == 1:
            (rid, val) = asb['results'][tix][0]
            msg = cbor2.loads(val)
            aad = external_aad(bundle, bib_blk, tgt[0], scope, asb['source_raw'], addl)
            if rid == COSE_MAC0:
                (prot, unprot, _pay, tag) = msg
                alg = cbor2.loads(prot).get(1)
                key = keys.get(unprot.get(4))
                okay = key is not None and hmac.compare_digest(mac0_tag(key, alg, prot, aad, tgt[0]['btsd']), tag)
            elif rid == COSE_MAC:
                from cryptography.hazmat.primitives.keywrap import aes_key_unwrap, InvalidUnwrap
                (prot, _unprot, _pay, tag, recips) = msg
                alg = cbor2.loads(prot).get(1)
                for recip in recips:
                    (_rprot, runprot, wrapped) = recip[:3]
                    kek = keys.get(runprot.get(4))
                    if kek is None:
                        continue
                    try:
                        cek = aes_key_unwrap(kek, wrapped)
                    except InvalidUnwrap:
                        continue
                    if hmac.compare_digest(mac_tag(cek, alg, prot, aad, tgt[0]['btsd']), tag):
                        okay = True
            elif rid == COSE_SIGN1:
                okay = _verify_sign1(msg, asb, aad, tgt[0]['btsd'], keys)
        out.append(okay)
    return out


def _verify_sign1(msg, asb, aad, payload, keys):
    ''' COSE_Sign1 with ES256/384/512 (RFC 9052 4.4); the public key is that of the first certificate of the x5chain
    (header parameter 33) carried in the additional unprotected parameters of the security block, or ``keys[b'x5chain']``. '''
    from cryptography import x509
    from cryptography.exceptions import InvalidSignature
    from cryptography.hazmat.primitives import hashes
    from cryptography.hazmat.primitives.asymmetric import ec
    from cryptography.hazmat.primitives.asymmetric.utils import encode_dss_signature
    (prot, unprot, _pay, sig) = msg
    alg = cbor2.loads(prot).get(1)
    hashcls = {-7: hashes.SHA256, -35: hashes.SHA384, -36: hashes.SHA512}.get(alg)
    chain = None
    for (pid, val) in asb['params']:
        if pid == 4:
            # additional unprotected parameters: a header map, carried as an encoded byte string
            try:
                hmap = cbor2.loads(val) if isinstance(val, (bytes, bytearray)) else val
            except Exception:  # pylint: disable=broad-except
                hmap = None
            if isinstance(hmap, dict) and 33 in hmap:
                chain = hmap[33]
    if isinstance(unprot, dict) and 33 in unprot:
        chain = unprot[33]
    if chain is None:
        chain = keys.get(b'x5chain')
    if hashcls is None or chain is None or len(sig) % 2:
        return False
    der = chain if isinstance(chain, bytes) else chain[0]
    try:
        pub = x509.load_der_x509_certificate(bytes(der)).public_key()
        half = len(sig) // 2
        structure = cbor2.dumps(['Signature1', bytes(prot), bytes(aad), bytes(payload)])
        pub.verify(encode_dss_signature(int.from_bytes(sig[:half], 'big'), int.from_bytes(sig[half:], 'big')), structure, ec.ECDSA(hashcls()))
        return True
    except (InvalidSignature, ValueError, TypeError):
        return False


def make_bib(pri, target_blk, key, kid, num, alg=5, scope=None, source='dtn://src/', crc_type=0, flags=0, bundle=None,
             addl_protected=b'', extra_params=(), primary_raw=None, wrap_cek=None):
    ''' A BIB block (dict for rfc9171.encode_block) with one COSE_Mac0 over
    ``target_blk``. ``pri`` is the primary block dict that will be encoded
    (its exact encoding enters the AAD when the scope includes block 0). '''
    if scope is None:
        scope = {0: 1, -1: 1}
    sec_blk = dict(type=rfc9171.TYPE_BIB, num=num, flags=flags)
    pseudo = dict(primary=dict(raw=primary_raw if primary_raw is not None else rfc9171.encode_primary(pri)),
                  blocks=(bundle or {}).get('blocks', []) + [target_blk])
    source_raw = rfc9171.text_to_eid(source)
    aad = external_aad(pseudo, sec_blk, target_blk, scope, source_raw, addl_protected)
    prot = cbor2.dumps({1: alg})
    if wrap_cek is None:
        tag = mac0_tag(key, alg, prot, aad, target_blk['btsd'])
        msg = cbor2.dumps([prot, {4: kid}, None, tag])
        rid = COSE_MAC0
    else:
        # COSE_Mac: content key wrapped for one recipient with AES-KW under ``key``
        from cryptography.hazmat.primitives.keywrap import aes_key_wrap
        tag = mac_tag(wrap_cek, alg, prot, aad, target_blk['btsd'])
        kwalg = -3 if len(key) == 16 else -5
        msg = cbor2.dumps([prot, {}, None, tag, [[b'', {1: kwalg, 4: kid}, aes_key_wrap(key, wrap_cek)]]])
        rid = COSE_MAC
    params = [(5, scope)]
    if addl_protected:
        params.append((3, addl_protected))
    params.extend(extra_params)
    btsd = encode_asb([target_blk['num']], source, params, [[(rid, msg)]])
    return dict(type=rfc9171.TYPE_BIB, num=num, flags=flags, crc_type=crc_type, btsd=btsd)


def enc0(key, alg, ivec, ext_aad, plaintext, kid):
    ''' COSE_Encrypt0 with detached ciphertext: returns (message bytes, ciphertext||tag). '''
    from cryptography.hazmat.primitives.ciphers.aead import AESGCM
    prot = cbor2.dumps({1: alg})
    structure = cbor2.dumps(['Encrypt0', prot, bytes(ext_aad)])
    ctext = AESGCM(key).encrypt(ivec, bytes(plaintext), structure)
    return (cbor2.dumps([prot, {4: kid, 5: ivec}, None]), ctext)


def dec0(key, msg_bytes, ext_aad, ciphertext):
    from cryptography.hazmat.primitives.ciphers.aead import AESGCM
    (prot, unprot, _pay) = cbor2.loads(msg_bytes)[:3]
    structure = cbor2.dumps(['Encrypt0', prot, bytes(ext_aad)])
    return AESGCM(key).decrypt(unprot[5], bytes(ciphertext), structure)


def dec_wrapped(kek, msg_bytes, ext_aad, ciphertext):
    ''' COSE_Encrypt with detached ciphertext and one AES-KW recipient (RFC 9052 5.1, RFC 3394): unwrap the content key with
    the key-encryption key, then AES-GCM over Enc_structure ["Encrypt", protected, external_aad]. '''
    from cryptography.hazmat.primitives.ciphers.aead import AESGCM
    from cryptography.hazmat.primitives.keywrap import aes_key_unwrap
    (prot, unprot, _pay, recipients) = cbor2.loads(msg_bytes)[:4]
    (_rprot, _runprot, wrapped) = recipients[0][:3]
    cek = aes_key_unwrap(kek, wrapped)
    structure = cbor2.dumps(['Encrypt', prot, bytes(ext_aad)])
    return AESGCM(cek).decrypt(unprot[5], bytes(ciphertext), structure)


def make_bcb(pri, target_blk, key, kid, num, ivec, alg=3, scope=None, source='dtn://src/', crc_type=0, primary_raw=None):
    ''' Returns (bcb block dict, encrypted target block dict). '''
    if scope is None:
        scope = {0: 1, -1: 1}
    sec_blk = dict(type=rfc9171.TYPE_BCB, num=num, flags=1)
    pseudo = dict(primary=dict(raw=primary_raw if primary_raw is not None else rfc9171.encode_primary(pri)), blocks=[target_blk])
    source_raw = rfc9171.text_to_eid(source)
    aad = external_aad(pseudo, sec_blk, target_blk, scope, source_raw, b'')
    (msg, ctext) = enc0(key, alg, ivec, aad, target_blk['btsd'], kid)
    btsd = encode_asb([target_blk['num']], source, [(5, scope)], [[(COSE_ENC0, msg)]])
    return (dict(type=rfc9171.TYPE_BCB, num=num, flags=1, crc_type=crc_type, btsd=btsd), dict(target_blk, btsd=ctext))
