''' Independent BTP-U message-set codec (draft-ietf-dtn-btpu as implemented
on the wire by this repository's test vectors): a frame payload is a
sequence of messages followed by optional zero padding. Each message:
type (8 bits), flags (4 bits, 0x8 = hints present), length (20 bits, octets
following the 4-octet head: hints + content); hints: repeated
[type (7 bits) | more-flag (1 bit)], length (8 bits), value.
'''
import struct

MSG_PADDING = 1
MSG_BUNDLE = 2
MSG_XFER_SEG = 3
MSG_XFER_END = 4
MSG_XFER_CANCEL = 5
HINT_TOTAL_LEN = 0
ETHERTYPE = 0x88B5


class Malformed(Exception):
    pass


def decode_messages(data):
    ''' Returns list of dict(type, flags, hints=[(type, value)], content, length, size). '''
    data = bytes(data)
    out = []
    pos = 0
    while pos < len(data) and data[pos] != 0:
        if pos + 4 > len(data):
            raise Malformed('truncated message head')
        mtype = data[pos]
        word = int.from_bytes(data[pos + 1:pos + 4], 'big')
        flags = word >> 20
        length = word & 0xFFFFF
        body = data[pos + 4:pos + 4 + length]
        if len(body) != length:
            raise Malformed('declared length %d exceeds the frame' % length)
        hints = []
        cur = 0
        if flags & 0x8:
            while True:
                if cur + 2 > len(body):
                    raise Malformed('truncated hint')
                htype = body[cur] >> 1
                more = body[cur] & 1
                hlen = body[cur + 1]
                if cur + 2 + hlen > len(body):
                    raise Malformed('truncated hint value')
                hints.append((htype, body[cur + 2:cur + 2 + hlen]))
                cur += 2 + hlen
                if not more:
                    break
        content = body[cur:]
        msg = dict(type=mtype, flags=flags, hints=hints, content=content, length=length, size=4 + length)
        if mtype in (MSG_XFER_SEG, MSG_XFER_END):
            if len(content) < 8:
                raise Malformed('transfer segment shorter than its fixed fields')
            (msg['xfer_num'], msg['seg_idx']) = struct.unpack('!II', content[:8])
            msg['data'] = content[8:]
        out.append(msg)
        pos += 4 + length
    if any(data[pos:]):
        raise Malformed('non-zero octets after the padding')
    return out


def encode_message(mtype, content, hints=()):
    body = b''
    for (ix, (htype, value)) in enumerate(hints):
        more = 1 if ix < len(hints) - 1 else 0
        body += bytes([(htype << 1) | more, len(value)]) + bytes(value)
    body += bytes(content)
    flags = 0x8 if hints else 0
    return bytes([mtype]) + ((flags << 20) | len(body)).to_bytes(3, 'big') + body


def encode_segment(xfer_num, seg_idx, data, last, total_len=None, extra_hints=()):
    hints = []
    if total_len is not None:
        hints.append((HINT_TOTAL_LEN, total_len.to_bytes(4, 'big')))
    hints.extend(extra_hints)
    return encode_message(MSG_XFER_END if last else MSG_XFER_SEG, struct.pack('!II', xfer_num, seg_idx) + bytes(data), hints)


def frame(dst, src, payload, pad_to=0):
    data = bytes(dst) + bytes(src) + struct.pack('!H', ETHERTYPE) + bytes(payload)
    if len(data) < pad_to:
        data += bytes(pad_to - len(data))
    return data
