''' Batch runner, minimiser, replay and evidence writer (DESIGN 2.8-2.10, 9).

A property module (``props/Cnn.py``) provides::

    ID, LEVEL ('exploration'|'fault_enumeration'), RULE (text)
    gen(ch, tier) -> plan (JSON-able dict)
    execute(plan, sched, verbose) -> run      (never raises for a violation)
    judge(run) -> list of (clause, discriminator, detail)
    describe(run) -> dict(nontrivial=bool, key=hashable, sim_us=int, counters=dict, sample=...)
    shrink_candidates(plan) -> iterable of smaller plans      (optional)
    COMPONENTS -> dict real/simulated/stub                      (optional)
'''
import concurrent.futures
import faulthandler
import gc
import hashlib
import importlib
import json
import multiprocessing
import os
import signal
import subprocess
import sys
import time
import traceback

from .world import Chooser, CallbackHang, HarnessError

VERIF = os.path.dirname(os.path.dirname(os.path.abspath(__file__)))
#: where evidence and replay files go; the selftests that run a check against a scratch tree (reverted fix, seeded change)
#: point this elsewhere so that /verif/evidence only ever describes runs against /repo itself
OUT_DIR = os.environ.get('VERIF_OUT_DIR') or VERIF
WATCHDOG_S = 60


def mix_seed(base, prop, index, lane=0):
    raw = hashlib.blake2b(('%d/%s/%d/%d' % (base, prop, index, lane)).encode(), digest_size=8).digest()
    return int.from_bytes(raw, 'big')


def load_prop(prop_id):
    return importlib.import_module('props.%s' % prop_id)


def load_known():
    path = os.path.join(VERIF, 'known_findings.json')
    if not os.path.exists(path):
        return []
    with open(path) as infile:
        return json.load(infile).get('findings', [])


def _alarm(_signum, _frame):
    raise CallbackHang('watchdog')


def run_one(prop, plan, sched, verbose=False):
    ''' Execute one plan under the watchdog; returns (run, violations). '''
    signal.signal(signal.SIGALRM, _alarm)
    # per-run wall-clock watchdog against a callback that never returns; runs that legitimately make hundreds of
    # evaluations (fault enumeration) declare a longer one
    signal.setitimer(signal.ITIMER_REAL, getattr(prop, 'WATCHDOG_S', WATCHDOG_S))
    gc_was = gc.isenabled()
    gc.disable()
    from . import boot
    boot.reset_process_state()
    try:
        run = prop.execute(plan, sched, verbose)
    finally:
        signal.setitimer(signal.ITIMER_REAL, 0)
        if gc_was:
            gc.enable()
        # scratch directory of the file-based D-Bus methods (whichever engine used it, however the run ended)
        pair = sys.modules.get('scenarios.tcpcl_pair')
        if pair is not None:
            pair._cleanup_workdir()
    viols = prop.judge(run)
    return (run, viols)


def signature(prop_id, viol):
    return '%s/%s/%s' % (prop_id, viol[0], viol[1])


def run_seed(prop, tier, base_seed, index, verbose=False):
    ''' Generate and run case ``index``. Returns dict. '''
    seed = mix_seed(base_seed, prop.ID, index)
    gench = Chooser(seed)
    plan = prop.gen(gench, tier)
    sched = Chooser(mix_seed(base_seed, prop.ID, index, 1))
    (run, viols) = run_one(prop, plan, sched, verbose)
    info = prop.describe(run)
    return dict(index=index, plan=plan, tape=sched.tape, viols=viols, info=info,
                digest=run.wld.digest() if hasattr(run, 'wld') else info.get('digest'))


def _worker(args):
    (prop_id, tier, base_seed, start, count, deadline, stride) = args
    faulthandler.enable()
    sys.setrecursionlimit(10000)
    from . import boot
    boot.boot()
    prop = load_prop(prop_id)
    out = dict(evals=0, nontrivial=set(), counters={}, viols=[], capped=0, sim_us=0,
               samples=[], harness_errors=[], steps=0, cells={})
    for ix in range(count):
        if time.time() > deadline:
            break
        index = start + ix * stride
        try:
            res = run_seed(prop, tier, base_seed, index)
        except CallbackHang:
            # the watchdog fired outside the places where a scenario turns it into a verdict: the run is abandoned
            # and counted as capped (wall-clock, e.g. a loaded machine), not judged
            out['capped'] += 1
            out['counters']['runner.watchdog_abandoned'] = out['counters'].get('runner.watchdog_abandoned', 0) + 1
            continue
        except (HarnessError, Exception) as err:  # pylint: disable=broad-except
            out['harness_errors'].append((index, '%s: %s' % (type(err).__name__, err),
                                          traceback.format_exc()[-2000:]))
            continue
        gc.collect()
        info = res['info']
        out['evals'] += info.get('evals', 1)
        out['sim_us'] += info.get('sim_us', 0)
        out['steps'] += info.get('steps', 0)
        if info.get('capped'):
            out['capped'] += 1
        if info.get('nontrivial'):
            for key in (info.get('keys') or [info.get('key', res['digest'])]):
                out['nontrivial'].add(key)
        for (key, val) in info.get('counters', {}).items():
            out['counters'][key] = out['counters'].get(key, 0) + val
        for (key, val) in info.get('cells', {}).items():
            out['cells'][key] = out['cells'].get(key, 0) + val
        if len(out['samples']) < 2 and info.get('sample') is not None:
            out['samples'].append(info['sample'])
        seen = set()
        for viol in res['viols']:
            sig = signature(prop_id, viol)
            if sig in seen:
                continue
            seen.add(sig)
            out['viols'].append(dict(sig=sig, index=index, plan=res['plan'], tape=res['tape'],
                                     detail=viol[2], size=len(json.dumps(res['plan'])) + len(res['tape'])))
    out['nontrivial'] = list(out['nontrivial'])
    return out


def run_batch(prop_id, tier, base_seed, budget_s, workers, max_cases=None, chunk=None):
    ''' Run cases in parallel until the budget or max_cases is reached. '''
    prop = load_prop(prop_id)
    start_t = time.time()
    deadline = start_t + budget_s
    total = dict(evals=0, nontrivial=set(), counters={}, viols={}, capped=0, sim_us=0,
                 samples=[], harness_errors=[], steps=0, cells={}, cases=0)
    chunk = chunk or getattr(prop, 'CHUNK', 25)
    ctx = multiprocessing.get_context('fork')
    next_index = 0
    with concurrent.futures.ProcessPoolExecutor(max_workers=workers, mp_context=ctx) as pool:
        pending = set()

        def submit():
            nonlocal next_index
            if max_cases is not None and next_index >= max_cases:
                return False
            if time.time() > deadline:
                return False
            count = chunk if max_cases is None else min(chunk, max_cases - next_index)
            pending.add(pool.submit(_worker, (prop_id, tier, base_seed, next_index, count, deadline, 1)))
            next_index += count
            return True

        for _ in range(workers * 2):
            if not submit():
                break
        while pending:
            (done, pending_now) = concurrent.futures.wait(
                pending, timeout=getattr(prop, 'WATCHDOG_S', WATCHDOG_S) * max(3, chunk) + 60, return_when=concurrent.futures.FIRST_COMPLETED)
            if not done:
                total['harness_errors'].append((-1, 'worker timeout', ''))
                for fut in pending_now:
                    fut.cancel()
                break
            pending = set(pending_now)
            for fut in done:
                try:
                    res = fut.result()
                except Exception as err:  # pylint: disable=broad-except
                    total['harness_errors'].append((-1, 'worker died: %r' % (err,), ''))
                    continue
                total['evals'] += res['evals']
                total['sim_us'] += res['sim_us']
                total['steps'] += res['steps']
                total['capped'] += res['capped']
                total['nontrivial'].update(res['nontrivial'])
                for (key, val) in res['counters'].items():
                    total['counters'][key] = total['counters'].get(key, 0) + val
                for (key, val) in res['cells'].items():
                    total['cells'][key] = total['cells'].get(key, 0) + val
                if len(total['samples']) < 3:
                    total['samples'].extend(res['samples'][:3 - len(total['samples'])])
                total['harness_errors'].extend(res['harness_errors'])
                for viol in res['viols']:
                    cur = total['viols'].get(viol['sig'])
                    if cur is None:
                        viol['count'] = 1
                        viol['alts'] = []
                        total['viols'][viol['sig']] = viol
                    else:
                        cur['count'] += 1
                        # a few more witnesses: if the smallest one owes its violation to state left behind by
                        # an earlier run of the same worker process it will not replay on its own, another may
                        if viol['size'] < cur['size']:
                            viol['count'] = cur['count']
                            viol['alts'] = ([cur] + cur.pop('alts'))[:6]
                            total['viols'][viol['sig']] = viol
                        elif len(cur['alts']) < 6:
                            cur['alts'].append(viol)
                submit()
    total['cases'] = next_index
    total['wall_s'] = time.time() - start_t
    return total


# -- minimisation ---------------------------------------------------------------
def _reproduces(prop, plan, tape, want_sig):
    sched = Chooser(tape=tape)
    try:
        (_run, viols) = run_one(prop, plan, sched)
    except (HarnessError, Exception):  # pylint: disable=broad-except
        return None
    for viol in viols:
        if signature(prop.ID, viol) == want_sig:
            return sched.tape
    return None


def generic_plan_candidates(plan):
    ''' Smaller variants of a plan: drop list items, shrink integers. '''
    for key in ('ops', 'faults', 'script', 'bundles', 'events'):
        items = plan.get(key)
        if not isinstance(items, list):
            continue
        # drop halves, then single items
        size = len(items)
        block = size // 2
        while block >= 1:
            for start in range(0, size, block):
                cand = dict(plan)
                cand[key] = items[:start] + items[start + block:]
                if len(cand[key]) < size:
                    yield cand
            block //= 2
        for (ix, item) in enumerate(items):
            if isinstance(item, dict):
                for (fld, val) in item.items():
                    if isinstance(val, int) and not isinstance(val, bool) and fld in ('len', 'dur', 'size', 'delay') and val > 1:
                        for newval in (1, val // 2, val - 1):
                            if newval != val:
                                cand = dict(plan)
                                cand[key] = list(items)
                                cand[key][ix] = dict(item, **{fld: newval})
                                yield cand


def minimise(prop, plan, tape, want_sig, budget_s):
    deadline = time.time() + budget_s
    first = _reproduces(prop, plan, tape, want_sig)
    if first is None:
        return (plan, tape, False)
    tape = first
    # 1. plan level
    improved = True
    cand_fn = getattr(prop, 'shrink_candidates', generic_plan_candidates)
    while improved and time.time() < deadline:
        improved = False
        for cand in cand_fn(plan):
            if time.time() > deadline:
                break
            got = _reproduces(prop, cand, tape, want_sig)
            if got is not None:
                plan = cand
                tape = got
                improved = True
                break
    # 2. tape level: cut the tail, then zero blocks
    low = 0
    high = len(tape)
    while low < high and time.time() < deadline:
        mid = (low + high) // 2
        got = _reproduces(prop, plan, tape[:mid], want_sig)
        if got is not None:
            high = mid
            tape = tape[:mid]
        else:
            low = mid + 1
    block = max(1, len(tape) // 2)
    while block >= 1 and time.time() < deadline:
        pos = 0
        while pos < len(tape) and time.time() < deadline:
            if any(tape[pos:pos + block]):
                cand = tape[:pos] + [0] * min(block, len(tape) - pos) + tape[pos + block:]
                got = _reproduces(prop, plan, cand, want_sig)
                if got is not None:
                    tape = cand
            pos += block
        block //= 2
    # trailing zeros are implied
    while tape and tape[-1] == 0:
        tape.pop()
    ok = _reproduces(prop, plan, tape, want_sig) is not None
    return (plan, tape, ok)


def write_replay(prop_id, sig, plan, tape, detail, base_seed, index, minimised):
    os.makedirs(os.path.join(OUT_DIR, 'replays'), exist_ok=True)
    tag = hashlib.blake2b(sig.encode(), digest_size=4).hexdigest()
    path = os.path.join(OUT_DIR, 'replays', '%s-%s-%s.json' % (prop_id, base_seed, tag))
    with open(path, 'w') as outfile:
        json.dump(dict(property=prop_id, signature=sig, detail=detail, seed=base_seed, index=index,
                       minimised=minimised, plan=plan, tape=tape), outfile, indent=1, sort_keys=True)
    return path


def replay_file(path, verbose=True):
    ''' Re-run a replay file; returns (signatures found, digest). '''
    from . import boot
    boot.boot(log_level=None)
    with open(path) as infile:
        rep = json.load(infile)
    prop = load_prop(rep['property'])
    sched = Chooser(tape=rep['tape'])
    (run, viols) = run_one(prop, rep['plan'], sched, verbose)
    sigs = sorted(set(signature(prop.ID, viol) for viol in viols))
    digest = run.wld.digest() if hasattr(run, 'wld') else None
    return (rep, sigs, viols, digest)


def fresh_replay_ok(path, want_sig):
    ''' Replay in a fresh interpreter (different hash seed); must reproduce. '''
    env = dict(os.environ, PYTHONHASHSEED='12345', VERIF_NO_REEXEC='1')
    proc = subprocess.run([sys.executable, os.path.join(VERIF, 'check'), 'x', '--replay', path, '--quiet'],
                          env=env, capture_output=True, text=True, timeout=600)
    return ('REPRODUCED %s' % want_sig) in proc.stdout


# -- evidence -----------------------------------------------------------------------
def write_evidence(prop, tier, base_seed, total, reported, extra=None):
    os.makedirs(os.path.join(OUT_DIR, 'evidence'), exist_ok=True)
    wall = total['wall_s']
    cov = dict(
        evaluations=int(total['evals']),
        distinct_nontrivial=len(total['nontrivial']),
        rule=prop.RULE,
        samples=total['samples'][:3] or ['(none)'],
        simulated_runs=total['cases'],
        runs_per_hour=int(total['cases'] / wall * 3600) if wall > 0 else 0,
        simulated_seconds=round(total['sim_us'] / 1e6, 3),
        scheduler_steps=total['steps'],
        capped_runs=total['capped'],
        faults_and_probes_fired=dict(sorted(total['counters'].items())),
        components=getattr(prop, 'COMPONENTS', {}),
        harness_errors=len(total['harness_errors']),
        known_findings_matched=[item['sig'] for item in reported if item['status'] == 'known'],
        violation_signatures=[item['sig'] for item in reported if item['status'] == 'violation'],
        exhaustive=False,
    )
    if total.get('cells'):
        cov['cells'] = dict(sorted(total['cells'].items()))
    zero = [key for key in getattr(prop, 'PROBES', ()) if not total['counters'].get(key)]
    if zero:
        cov['probes_at_zero'] = zero
    if extra:
        cov.update(extra)
    evd = dict(
        property_id=prop.ID,
        tier=tier,
        seed=int(base_seed),
        level=prop.LEVEL,
        coverage=cov,
        assumptions=list(getattr(prop, 'ASSUMPTIONS', [])),
        wall_s=round(wall, 2),
        violations=len([item for item in reported if item['status'] == 'violation']),
    )
    path = os.path.join(OUT_DIR, 'evidence', '%s.json' % prop.ID)
    with open(path, 'w') as outfile:
        json.dump(evd, outfile, indent=1, sort_keys=True, default=str)
    return path


def check_main(prop_id, tier, base_seed, budget_s, workers, max_cases=None):
    ''' Full check: batch, triage against known findings, minimise, report.
    Returns the process exit code. '''
    prop = load_prop(prop_id)
    total = run_batch(prop_id, tier, base_seed, budget_s, workers, max_cases)
    known = {item['signature']: item for item in load_known()
             if item.get('property') == prop_id and item.get('status') == 'known'}
    reported = []
    min_budget = float(os.environ.get('VERIF_MIN_BUDGET_S', '20' if tier == 'quick' else '60'))
    for (sig, viol) in sorted(total['viols'].items()):
        if sig in known:
            print('KNOWN-FINDING: property=%s %s [%s] (seen %d times)' % (
                prop_id, known[sig]['what'], sig, viol['count']))
            reported.append(dict(sig=sig, status='known'))
            continue
        path = None
        why = ''
        for wit in [viol] + viol.get('alts', []):
            (plan, tape, ok) = minimise(prop, wit['plan'], wit['tape'], sig, min_budget)
            if not ok:
                # not reproducible in-process
                why = 'violation %s did not reproduce' % sig
                continue
            path = write_replay(prop_id, sig, plan, tape, wit['detail'], base_seed, wit['index'], True)
            if fresh_replay_ok(path, sig):
                viol = dict(wit, count=viol['count'])
                break
            why = 'violation %s did not reproduce in a fresh interpreter' % sig
            path = None
        if path is None:
            # no witness replays on its own: a determinism defect of the harness, or process-global state that
            # the code under test carries from one run to the next within a worker process
            total['harness_errors'].append((viol['index'], why + ' (%d witnesses tried)' % (1 + len(viol.get('alts', []))), ''))
            reported.append(dict(sig=sig, status='unreproducible'))
            continue
        print('violation: %s :: %s (seen %d times)' % (sig, viol['detail'], viol['count']))
        print('VIOLATION property=%s replay=%s' % (prop_id, path))
        reported.append(dict(sig=sig, status='violation'))
    for item in known.values():
        if item['signature'] not in total['viols']:
            print('note: known finding not triggered this run: %s' % item['signature'])
    evpath = write_evidence(prop, tier, base_seed, total, reported)
    print('%s %s: cases=%d evals=%d distinct_nontrivial=%d sim=%.0fs wall=%.1fs capped=%d harness_errors=%d evidence=%s' % (
        prop_id, tier, total['cases'], total['evals'], len(total['nontrivial']), total['sim_us'] / 1e6,
        total['wall_s'], total['capped'], len(total['harness_errors']), evpath))
    if total['harness_errors']:
        for err in total['harness_errors'][:5]:
            print('HARNESS-ERROR case=%s %s\n%s' % err)
        return 2
    if any(item['status'] == 'violation' for item in reported):
        return 1
    if total['evals'] == 0:
        print('HARNESS-ERROR nothing was evaluated')
        return 2
    return 0
