''' Process bootstrap: module search path, sys.modules fakes, seam rebinding
(DESIGN appendix A). Call :func:`boot` once before importing repo code.
'''
import datetime as _real_datetime
import logging
import os
import sys
import time as _real_time
import types

VERIF = os.path.dirname(os.path.dirname(os.path.abspath(__file__)))
REPO_SRC = os.environ.get('VERIF_REPO_SRC', '/repo/src')

_BOOTED = False
SOCKET = None
DATETIME = None
TIME = None
SSL = None


class _SimDateTime(_real_datetime.datetime):
    ''' ``datetime.datetime`` whose ``now`` reads the simulated wall clock of
    the current node. '''

    @classmethod
    def now(cls, tz=None):
        from . import world as _w
        wld = _w._WORLD
        if wld is None:
            usec = _w.World.EPOCH_UNIX * 10**6
        else:
            usec = wld.wall_us()
        base = _real_datetime.datetime(1970, 1, 1, tzinfo=_real_datetime.timezone.utc) \
            + _real_datetime.timedelta(microseconds=usec)
        out = cls(base.year, base.month, base.day, base.hour, base.minute, base.second,
                  base.microsecond, tzinfo=_real_datetime.timezone.utc)
        if tz is None:
            return out.replace(tzinfo=None)
        return out.astimezone(tz)

    @classmethod
    def utcnow(cls):
        return cls.now(_real_datetime.timezone.utc).replace(tzinfo=None)


def _make_datetime_facade():
    mod = types.ModuleType('datetime')
    for name in dir(_real_datetime):
        if not name.startswith('__'):
            setattr(mod, name, getattr(_real_datetime, name))
    mod.datetime = _SimDateTime
    return mod


def _make_time_facade():
    mod = types.ModuleType('time')
    for name in dir(_real_time):
        if not name.startswith('__'):
            setattr(mod, name, getattr(_real_time, name))

    def _now_us():
        from . import world as _w
        return _w._WORLD.now if _w._WORLD is not None else 0

    def sleep(secs):
        from . import world as _w
        wld = _w._WORLD
        if wld is not None:
            wld.now += int(secs * 1e6)
            wld.count('time.sleep')

    mod.monotonic_ns = lambda: 10**12 + _now_us() * 1000
    mod.monotonic = lambda: 10**3 + _now_us() / 1e6
    mod.perf_counter = mod.monotonic
    mod.time = lambda: (__import__('dsim.world').world.World.EPOCH_UNIX) + _now_us() / 1e6
    mod.time_ns = lambda: int(mod.time() * 1e9)
    mod.sleep = sleep
    return mod


def boot(log_level=None):
    ''' Idempotent. '''
    global _BOOTED, SOCKET, DATETIME, TIME
    if _BOOTED:
        return
    _BOOTED = True
    for path in (os.path.join(VERIF, 'shims'), VERIF, REPO_SRC):
        if path in sys.path:
            sys.path.remove(path)
        sys.path.insert(0, path)
    # order: repo first (site-packages has an unrelated 'bp'), then verif, shims
    from . import dbusmod, net
    dbusmod.install()
    import gi.repository.GLib  # noqa: F401  (the shim)

    import warnings
    # corrupted certificates (bit flips in an x5chain) make ``cryptography`` warn about what it will reject in future
    warnings.filterwarnings('ignore', module='certvalidator')
    warnings.filterwarnings('ignore', message='.*serial number.*')
    logging.raiseExceptions = False
    if log_level is None:
        logging.disable(logging.CRITICAL)
    else:
        logging.basicConfig(level=log_level, stream=sys.stdout,
                            format='      %(levelname)s %(name)s: %(message)s')
    SOCKET = net.make_socket_facade()
    DATETIME = _make_datetime_facade()
    TIME = _make_time_facade()
    # import every repo package now so that the state snapshot below is taken
    # before any repo code has run
    import tcpcl.session  # noqa: F401
    import tcpcl.agent  # noqa: F401
    import bp.app  # noqa: F401
    import bp.agent  # noqa: F401
    import udpcl.agent  # noqa: F401
    import btpu.agent  # noqa: F401
    reset_process_state()


def patch_tcpcl():
    boot()
    from . import tls
    import tcpcl.session
    import tcpcl.agent
    import tcpcl.config
    tcpcl.session.socket = SOCKET
    tcpcl.session.datetime = DATETIME
    tcpcl.session.ssl = tls.FACADE
    tcpcl.agent.socket = SOCKET
    tcpcl.config.ssl = tls.FACADE
    return tcpcl


def quiet_scapy():
    ''' scapy's ``Packet.__repr__`` only feeds log text; bulk runs replace it
    by a constant (never in verbose replay). '''
    import scapy.packet
    scapy.packet.Packet.__repr__ = lambda self: '<pkt>'


_SNAPSHOT = None


def reset_process_state():
    ''' Restore process-global mutable state of scapy packet classes defined
    by the repository (layer bindings) to what it was after import, so that a
    run never depends on which runs preceded it in the same process. '''
    global _SNAPSHOT
    import scapy.packet
    classes = []
    for (name, mod) in list(sys.modules.items()):
        fname = getattr(mod, '__file__', None) or ''
        if not fname.startswith(REPO_SRC):
            continue
        for obj in vars(mod).values():
            if isinstance(obj, type) and issubclass(obj, scapy.packet.Packet) and obj.__module__ == name:
                classes.append(obj)
    if _SNAPSHOT is None:
        _SNAPSHOT = {}
    for cls in classes:
        if cls not in _SNAPSHOT:
            _SNAPSHOT[cls] = (
                {key: dict(val) for (key, val) in cls.__dict__.get('_overload_fields', {}).items()},
                list(cls.__dict__.get('payload_guess', [])),
            )
            continue
        (over, guess) = _SNAPSHOT[cls]
        cur = cls.__dict__.get('_overload_fields')
        if cur is not None:
            for (key, val) in over.items():
                if key in cur:
                    if cur[key] != val:
                        cur[key].clear()
                        cur[key].update(val)
                else:
                    cur[key] = dict(val)
            for key in list(cur):
                if key not in over:
                    del cur[key]
        curg = cls.__dict__.get('payload_guess')
        if curg is not None and curg != guess:
            curg[:] = guess
