''' Fake ``gi.repository.GLib``: the subset of the API the repository uses,
backed by the current simulated world (DESIGN 2.3).
'''
from .world import (  # noqa: F401  pylint: disable=unused-import
    world, IO_IN, IO_PRI, IO_OUT, IO_ERR, IO_HUP,
    PRIORITY_HIGH, PRIORITY_DEFAULT, PRIORITY_HIGH_IDLE, PRIORITY_DEFAULT_IDLE,
    PRIORITY_LOW, HarnessError,
)


class IOCondition(int):
    IN = IO_IN
    OUT = IO_OUT
    PRI = IO_PRI
    ERR = IO_ERR
    HUP = IO_HUP


def idle_add(func, *args, priority=PRIORITY_DEFAULT_IDLE):
    src = world()._new_source('i', priority, func, args)
    return src.sid


def timeout_add(interval_ms, func, *args, priority=PRIORITY_DEFAULT):
    wld = world()
    src = wld._new_source('t', priority, func, args)
    src.interval = int(interval_ms) * 1000
    src.expiry = wld.now + src.interval
    return src.sid


def timeout_add_seconds(interval_s, func, *args, priority=PRIORITY_DEFAULT):
    return timeout_add(int(interval_s) * 1000, func, *args, priority=priority)


def io_add_watch(sock, *rest, priority=PRIORITY_DEFAULT):
    ''' Both PyGObject call forms: (chan, cond, func, *args) and
    (chan, priority, cond, func, *args). '''
    rest = list(rest)
    if len(rest) >= 3 and isinstance(rest[0], int) and isinstance(rest[1], int) and callable(rest[2]):
        priority = rest.pop(0)
    cond = rest.pop(0)
    func = rest.pop(0)
    if sock is None or isinstance(sock, (str, bytes, float)):
        # PyGObject: ``assert isinstance(channel, GLib.IOChannel)``
        raise AssertionError('io_add_watch: channel is not an IOChannel')
    if not hasattr(sock, '_sim_poll'):
        raise HarnessError('io_add_watch on a non-simulated object %r' % (sock,))
    if sock.fileno() < 0:
        raise ValueError('io_add_watch on a closed socket')
    src = world()._new_source('o', priority, func, tuple(rest))
    src.sock = sock
    src.cond = int(cond)
    return src.sid


def source_remove(sid):
    from . import world as _w
    if _w._WORLD is None:
        return False
    return _w._WORLD.source_remove(sid)


class MainLoop:
    ''' The simulator owns the loop; ``run`` is never entered. '''

    def __init__(self, *_args, **_kwargs):
        self.quit_called = False

    def run(self):
        raise HarnessError('MainLoop.run() inside the simulator')

    def quit(self):
        self.quit_called = True
        from . import world as _w
        if _w._WORLD is not None:
            _w._WORLD.log('mainloop-quit')

    def is_running(self):
        return not self.quit_called


class Error(Exception):
    pass


GError = Error
