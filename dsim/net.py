''' Simulated sockets and networks (DESIGN 2.4).

TCP: reliable ordered byte pipes with bounded buffers, chooser-decided
chunking, latency, short writes; faults stall / black-hole / reset / FIN.
Datagrams (UDP, AF_PACKET): drop / duplicate / reorder / delay / corrupt.
'''
import collections
import errno
import itertools
import socket as _real_socket
import types

from .world import world, IO_IN, IO_OUT, IO_ERR, IO_HUP, HarnessError

_FILENOS = itertools.count(1000)


class Net:
    ''' All hosts, listeners, connections and wire taps of one world. '''

    def __init__(self, wld, profile=None):
        self.world = wld
        wld.net = self
        prof = dict(
            # microseconds
            latencies=(200, 50, 1000, 5000, 20000),
            latency_weights=(6, 2, 3, 2, 1),
            # probability (x/16) that a send is shortened when space allows
            short_write_16=0,
            # chunking: weights for (whole, split2, mss, dribble)
            chunk_weights=(8, 3, 2, 1),
            mss=(1460, 536, 100, 7, 1),
            tcp_capacity=65536,
            # datagram faults, x/64 each
            dg_drop_64=0, dg_dup_64=0, dg_reorder_64=0, dg_corrupt_64=0,
            dg_latencies=(200, 1000, 5000, 50000, 400000),
        )
        if profile:
            prof.update(profile)
        self.prof = prof
        #: name -> ip and ip -> host name
        self.names = {}
        self.listeners = {}
        self.conns = []
        #: datagram sockets by (family, ip, port) or (ifname,) for packet
        self.dgram_bound = {}
        self._eph = itertools.count(49152)
        #: hooks: called with (conn, direction, data) for every accepted send
        self.dgram_filter = None
        self.links_down_until = {}

    def add_host(self, name, addr):
        self.names[name] = addr

    def resolve(self, text):
        if text in self.names:
            return self.names[text]
        return text

    def ephemeral(self):
        return next(self._eph)


class Pipe:
    ''' One direction of a TCP connection. '''

    def __init__(self, conn, name, capacity):
        self.conn = conn
        self.name = name
        self.capacity = capacity
        self.inflight = 0
        self.last_arrival = 0
        self.rate_free = 0
        #: wire tap: list of (seq, time, bytes)
        self.tap = []
        self.total = 0
        #: stall: nothing arrives before this time
        self.stall_until = 0
        self.blackhole = False
        self.dst = None
        self.src = None
        #: FIFO of chunks (bytes) and FIN markers (None) still in flight
        self.queue = collections.deque()
        #: on-path corruption: {stream offset: mask OR-ed into that octet} (the tap keeps what the sender wrote)
        self.rewrite = dict((conn.net.prof.get('tcp_rewrite') or {}).get(name) or {})


class TcpConn:

    def __init__(self, net, cid, capacity):
        self.net = net
        self.cid = cid
        self.a2b = Pipe(self, 'a2b', capacity)
        self.b2a = Pipe(self, 'b2a', capacity)
        self.socks = []


class SimSocketBase:
    _sim = True

    def __init__(self, net, family, typ, proto):
        self.net = net
        self.family = family
        self.type = typ
        self.proto = proto
        self._fileno = next(_FILENOS)
        self._closed = False
        self._blocking = True
        self.node = net.world.cur
        self.laddr = None
        self.raddr = None
        self.sockopts = []

    def fileno(self):
        return -1 if self._closed else self._fileno

    def setblocking(self, flag):
        self._blocking = bool(flag)

    def settimeout(self, val):
        self._blocking = val is None or val > 0

    def setsockopt(self, *args):
        self.sockopts.append(args)

    def getsockopt(self, *_args):
        return 0

    def _addr_out(self, addr):
        ''' Socket address as the kernel hands it out: IPv6 addresses carry flow info and scope id. '''
        if int(self.family) == int(_real_socket.AF_INET6):
            return tuple(addr[:2]) + (0, 0)
        return addr

    def getsockname(self):
        if self.laddr is None:
            return self._addr_out(('::' if int(self.family) == int(_real_socket.AF_INET6) else '0.0.0.0', 0))
        return self._addr_out(self.laddr)

    def getpeername(self):
        if self.raddr is None:
            raise OSError(errno.ENOTCONN, 'Transport endpoint is not connected')
        return self._addr_out(self.raddr)

    def __repr__(self):
        return '<%s fd=%s laddr=%s raddr=%s>' % (type(self).__name__, self.fileno(), self.laddr, self.raddr)

    def _host_addr(self):
        node = self.node or self.net.world.cur
        if node is None or node.host is None:
            raise HarnessError('socket used by a node without host')
        return self.net.names[node.host]


class StreamSock(SimSocketBase):
    ''' A TCP socket (listening or connected). '''

    def __init__(self, net, family=_real_socket.AF_INET, typ=_real_socket.SOCK_STREAM, proto=0):
        super().__init__(net, family, typ, proto)
        self.listening = False
        self.accept_q = []
        self.conn = None
        self.tx = None  # Pipe we write into
        self.rx = None  # Pipe we read from
        self.rxbuf = bytearray()
        self.rx_eof = False
        self.rx_err = None
        self.tx_err = None
        self.shut_wr = False
        self.peer = None

    # -- setup -----------------------------------------------------------
    def bind(self, addr):
        (host, port) = addr[:2]
        if not host or host in ('0.0.0.0', '::'):
            host = self._host_addr()
        self.laddr = (host, port or self.net.ephemeral())

    def listen(self, _backlog=1):
        if self.laddr is None:
            self.bind(('', 0))
        key = self.laddr
        if key in self.net.listeners:
            raise OSError(errno.EADDRINUSE, 'Address already in use')
        self.net.listeners[key] = self
        self.listening = True

    def connect(self, addr):
        wld = self.net.world
        (host, port) = addr[:2]
        host = self.net.resolve(host)
        lst = self.net.listeners.get((host, port))
        if self.laddr is None:
            self.laddr = (self._host_addr(), self.net.ephemeral())
        if lst is None or lst._closed or self.net.prof.get('connect_refused'):
            wld.log('tcp-connect-refused', host, port)
            raise ConnectionRefusedError(errno.ECONNREFUSED, 'Connection refused')
        cap = self.net.prof['tcp_capacity']
        conn = TcpConn(self.net, len(self.net.conns), cap)
        self.net.conns.append(conn)
        srv = StreamSock(self.net, self.family, self.type, self.proto)
        srv.node = lst.node
        srv.laddr = (host, port)
        srv.raddr = self.laddr
        self.raddr = (host, port)
        self.conn = srv.conn = conn
        self.tx = srv.rx = conn.a2b
        self.rx = srv.tx = conn.b2a
        conn.a2b.src = self
        conn.a2b.dst = srv
        conn.b2a.src = srv
        conn.b2a.dst = self
        self.peer = srv
        srv.peer = self
        conn.socks = [self, srv]
        lst.accept_q.append(srv)
        wld.log('tcp-connect', conn.cid, self.laddr, self.raddr)

    def accept(self):
        if not self.accept_q:
            raise BlockingIOError(errno.EAGAIN, 'Resource temporarily unavailable')
        srv = self.accept_q.pop(0)
        self.net.world.log('tcp-accept', srv.conn.cid)
        return (srv, srv._addr_out(srv.raddr))

    # -- readiness -------------------------------------------------------
    def _sim_poll(self):
        if self._closed:
            return 0
        if self.listening:
            return IO_IN if self.accept_q else 0
        if self.conn is None:
            return 0
        cond = 0
        if self.rxbuf or self.rx_eof or self.rx_err or getattr(self, 'spurious_in', False):
            cond |= IO_IN
        if self.rx_err:
            cond |= IO_ERR | IO_HUP
        if self.tx_err or self._tx_free() > 0:
            cond |= IO_OUT
        return cond

    def _tx_free(self):
        pipe = self.tx
        return pipe.capacity - pipe.inflight - len(pipe.dst.rxbuf)

    # -- data ------------------------------------------------------------
    def send(self, data, _flags=0):
        wld = self.net.world
        if self._closed:
            raise OSError(errno.EBADF, 'Bad file descriptor')
        if self.conn is None:
            raise OSError(errno.ENOTCONN, 'not connected')
        if self.tx_err is not None:
            err = self.tx_err
            raise err
        if self.shut_wr:
            raise BrokenPipeError(errno.EPIPE, 'Broken pipe')
        data = bytes(data)
        if not data:
            return 0
        free = self._tx_free()
        if self._blocking:
            # blocking sockets are only used transiently (TLS hand-over)
            free = len(data)
        if free <= 0:
            wld.count('tcp.eagain')
            wld.log('tcp-eagain', self.conn.cid, self.tx.name)
            raise BlockingIOError(errno.EAGAIN, 'Resource temporarily unavailable')
        size = min(len(data), free)
        if size < len(data):
            wld.count('tcp.short_write_full')
        prof = self.net.prof
        if size > 1 and prof['short_write_16'] and wld.ch.coin('shortw', prof['short_write_16'], 16):
            size = 1 + wld.ch.pick('shortw.n', size - 1)
            wld.count('tcp.short_write')
        accepted = data[:size]
        pipe = self.tx
        if getattr(self, '_tls_owner', None) is not None and not getattr(self, '_tls_passthrough', False):
            # written to the TCP socket directly although a TLS layer has been put on top of it
            wld.count('tls.bypassed_write')
            wld.log('tls-bypass', self.conn.cid, pipe.name, len(accepted))
        seq = wld.log('tcp-send', self.conn.cid, pipe.name, pipe.total, accepted)
        pipe.tap.append((seq, wld.now, accepted))
        if pipe.rewrite:
            hit = [off for off in pipe.rewrite if pipe.total <= int(off) < pipe.total + size]
            if hit:
                arr = bytearray(accepted)
                for off in hit:
                    arr[int(off) - pipe.total] |= pipe.rewrite[off]
                    wld.count('fault.tcp_rewrite')
                    wld.log('fault', 'tcp-rewrite', pipe.name, int(off), pipe.rewrite[off])
                accepted = bytes(arr)
        pipe.total += size
        self._schedule(pipe, accepted)
        return size

    def sendall(self, data):
        data = bytes(data)
        while data:
            size = self.send(data)
            data = data[size:]

    def _schedule(self, pipe, data):
        wld = self.net.world
        prof = self.net.prof
        if pipe.blackhole:
            pipe.inflight += 0
            wld.count('tcp.blackholed', len(data))
            return
        lat = prof['latencies'][wld.ch.weighted('lat', prof['latency_weights'])]
        mode = wld.ch.weighted('chunk', prof['chunk_weights']) if len(data) > 1 else 0
        chunks = []
        if mode == 0:
            chunks = [data]
        elif mode == 1:
            cut = 1 + wld.ch.pick('chunk.cut', len(data) - 1)
            chunks = [data[:cut], data[cut:]]
        elif mode == 2:
            mss = prof['mss'][wld.ch.pick('chunk.mss', len(prof['mss']))]
            if len(data) // mss > 256:
                mss = len(data) // 256 + 1
            chunks = [data[ix:ix + mss] for ix in range(0, len(data), mss)]
        else:
            if len(data) <= 64:
                chunks = [data[ix:ix + 1] for ix in range(len(data))]
            else:
                cut = len(data) - 8
                chunks = [data[:cut]] + [data[ix:ix + 1] for ix in range(cut, len(data))]
        rate = prof.get('tcp_rate')
        if rate:
            # slow link: at most ``rate`` octets per second, arriving in pieces of a tenth of a second's worth
            piece = max(1, int(rate) // 10)
            chunks = [part[ix:ix + piece] for part in chunks for ix in range(0, len(part), piece)]
        when = wld.now + lat
        for (ix, chunk) in enumerate(chunks):
            if ix:
                when += 1 + wld.ch.pick('chunk.gap', 3) * (lat // 2 + 1) if mode != 2 else 1
            when = max(when, pipe.last_arrival, pipe.stall_until)
            if rate:
                when = max(when, pipe.rate_free)
                pipe.rate_free = when + len(chunk) * 10**6 // int(rate)
            pipe.last_arrival = when
            pipe.inflight += len(chunk)
            pipe.queue.append(chunk)
            wld.at(when, self._pump, pipe)
        if len(chunks) > 1:
            wld.count('tcp.chunked')

    @staticmethod
    def _pump(pipe):
        ''' Deliver the head of the in-flight FIFO (one event per item, so
        the k-th event delivers the k-th item whatever was postponed). '''
        wld = pipe.conn.net.world
        if wld.now < pipe.stall_until:
            wld.at(pipe.stall_until, StreamSock._pump, pipe)
            return
        if not pipe.queue:
            return
        chunk = pipe.queue.popleft()
        dst = pipe.dst
        if chunk is None:
            if not pipe.blackhole and not dst._closed:
                dst.rx_eof = True
                wld.log('tcp-arrive-fin', pipe.conn.cid, pipe.name)
            return
        pipe.inflight -= len(chunk)
        if pipe.blackhole:
            return
        if dst._closed or dst.rx_err:
            return
        dst.rxbuf += chunk
        wld.log('tcp-arrive', pipe.conn.cid, pipe.name, len(chunk))

    def recv(self, size, _flags=0):
        wld = self.net.world
        if self._closed:
            raise OSError(errno.EBADF, 'Bad file descriptor')
        if self.rx_err is not None:
            err = self.rx_err
            self.rx_err = None
            self.rx_eof = True
            self.rxbuf.clear()
            raise err
        if self.rxbuf:
            data = bytes(self.rxbuf[:size])
            del self.rxbuf[:size]
            wld.log('tcp-recv', self.conn.cid, self.rx.name, len(data))
            return data
        if getattr(self, 'spurious_in', False):
            # the readiness notification was spurious (legal for poll/select): nothing to read after all
            self.spurious_in = False
            wld.count('fault.spurious_readable')
            wld.log('tcp-spurious-readable', self.conn.cid, self.rx.name)
            raise BlockingIOError(errno.EAGAIN, 'Resource temporarily unavailable')
        if self.rx_eof:
            wld.log('tcp-recv-eof', self.conn.cid, self.rx.name)
            return b''
        if self._blocking:
            raise HarnessError('blocking recv on empty simulated socket')
        raise BlockingIOError(errno.EAGAIN, 'Resource temporarily unavailable')

    # -- teardown --------------------------------------------------------
    def shutdown(self, how):
        if self._closed:
            raise OSError(errno.EBADF, 'Bad file descriptor')
        if self.listening:
            return
        if self.conn is None:
            raise OSError(errno.ENOTCONN, 'Transport endpoint is not connected')
        if self.tx_err is not None and self.rx_eof:
            raise OSError(errno.ENOTCONN, 'Transport endpoint is not connected')
        if how in (_real_socket.SHUT_WR, _real_socket.SHUT_RDWR):
            self._send_fin()

    def _send_fin(self):
        if self.shut_wr or self.conn is None:
            return
        self.shut_wr = True
        pipe = self.tx
        wld = self.net.world
        wld.log('tcp-fin', self.conn.cid, pipe.name, pipe.total)
        if pipe.blackhole:
            return
        lat = self.net.prof['latencies'][0]
        when = max(wld.now + lat, pipe.last_arrival, pipe.stall_until)
        pipe.last_arrival = when
        pipe.queue.append(None)
        wld.at(when, self._pump, pipe)

    def close(self):
        if self._closed:
            return
        wld = self.net.world
        if self.listening:
            self.net.listeners.pop(self.laddr, None)
            self._closed = True
            wld.log('tcp-listen-close', self.laddr)
            return
        if self.conn is not None:
            self._send_fin()
            wld.log('tcp-close', self.conn.cid, self.tx.name)
            # later data for us is discarded; our peer's writes fail
            peer = self.peer
            if peer is not None and not peer._closed:
                wld.after(self.net.prof['latencies'][0], self._peer_sees_closed, peer)
        self._closed = True

    @staticmethod
    def _peer_sees_closed(peer):
        if peer.tx_err is None:
            peer.tx_err = BrokenPipeError(errno.EPIPE, 'Broken pipe')

    def detach(self):
        return self._fileno

    # -- faults ----------------------------------------------------------
    def inject_reset(self):
        ''' The connection is reset as seen from this socket. '''
        self.rx_err = ConnectionResetError(errno.ECONNRESET, 'Connection reset by peer')
        self.tx_err = ConnectionResetError(errno.ECONNRESET, 'Connection reset by peer')


class DgramSock(SimSocketBase):
    ''' UDP socket. '''

    def __init__(self, net, family=_real_socket.AF_INET, typ=_real_socket.SOCK_DGRAM, proto=0):
        super().__init__(net, family, typ, proto)
        self.rxq = []

    def bind(self, addr):
        (host, port) = addr[:2]
        if not host or host in ('0.0.0.0', '::'):
            host = self._host_addr()
        port = port or self.net.ephemeral()
        self.laddr = (host, port)
        key = ('udp', host, port)
        if key in self.net.dgram_bound:
            raise OSError(errno.EADDRINUSE, 'Address already in use')
        self.net.dgram_bound[key] = self

    def connect(self, addr):
        self.raddr = (self.net.resolve(addr[0]), addr[1])
        if self.laddr is None:
            self.bind(('', 0))

    def _sim_poll(self):
        if self._closed:
            return 0
        cond = IO_OUT
        if self.rxq:
            cond |= IO_IN
        return cond

    def sendto(self, data, *rest):
        addr = rest[-1]
        return self.sendmsg([data], [], 0, addr)

    def send(self, data, _flags=0):
        return self.sendmsg([data], [], 0, self.raddr)

    def sendmsg(self, bufs, ancdata=(), _flags=0, addr=None):
        wld = self.net.world
        if self._closed:
            raise OSError(errno.EBADF, 'Bad file descriptor')
        data = b''.join(bytes(buf) for buf in bufs)
        if len(data) > 65507:
            raise OSError(errno.EMSGSIZE, 'Message too long')
        if addr is None:
            addr = self.raddr
        if self.laddr is None:
            self.bind(('', 0))
        dst = (self.net.resolve(addr[0]), addr[1])
        tos = 0
        for item in ancdata or ():
            if item[0] == _real_socket.IPPROTO_IP and item[1] == _real_socket.IP_TOS:
                tos = int.from_bytes(item[2][:1], 'little') if isinstance(item[2], (bytes, bytearray)) else int(item[2])
        seq = wld.log('udp-send', self.laddr, dst, data)
        self.net.dgram_transmit('udp', self, self.laddr, dst, data, tos, seq)
        return len(data)

    def _deliver(self, data, src, tos):
        if self._closed:
            return
        self.rxq.append((data, src, tos))
        self.net.world.log('udp-arrive', src, self.laddr, len(data))

    def recvmsg(self, bufsize, _ancsize=0, _flags=0):
        if not self.rxq:
            raise BlockingIOError(errno.EAGAIN, 'Resource temporarily unavailable')
        (data, src, tos) = self.rxq.pop(0)
        anc = []
        want_tos = any(opt[1] in (13,) for opt in self.sockopts if len(opt) >= 2)
        if want_tos:
            anc.append((_real_socket.IPPROTO_IP, _real_socket.IP_TOS, bytes([tos])))
        self.net.world.log('udp-recv', src, self.laddr, len(data))
        return (data[:bufsize], anc, 0, src)

    def recvfrom(self, bufsize, _flags=0):
        (data, _anc, _flg, src) = self.recvmsg(bufsize)
        return (data, src)

    def recv(self, bufsize, _flags=0):
        return self.recvfrom(bufsize)[0]

    def shutdown(self, _how):
        return

    def close(self):
        if self._closed:
            return
        self._closed = True
        if self.laddr is not None:
            self.net.dgram_bound.pop(('udp',) + tuple(self.laddr), None)


class PacketSock(SimSocketBase):
    ''' AF_PACKET / SOCK_RAW socket bound to an interface. '''

    def __init__(self, net, family, typ, proto):
        super().__init__(net, family, typ, proto)
        self.rxq = []
        self.ifname = None
        self.hwaddr = None

    def bind(self, addr):
        self.ifname = addr[0]
        node = self.node or self.net.world.cur
        ifaces = self.net.prof.get('ifaces', {}).get(node.host, {})
        if self.ifname not in ifaces:
            raise OSError(errno.ENODEV, 'No such device')
        self.hwaddr = ifaces[self.ifname]
        self.laddr = (self.ifname, addr[1] if len(addr) > 1 else 0, 0, 1, self.hwaddr)
        self.net.dgram_bound[('pkt', node.host, self.ifname, id(self))] = self

    def getsockname(self):
        return self.laddr

    def _sim_poll(self):
        if self._closed:
            return 0
        return IO_OUT | (IO_IN if self.rxq else 0)

    def send(self, frame, _flags=0):
        wld = self.net.world
        frame = bytes(frame)
        seq = wld.log('eth-send', self.ifname, frame)
        self.net.dgram_transmit('pkt', self, self.hwaddr, frame[:6], frame, 0, seq)
        return len(frame)

    def sendto(self, frame, *_rest):
        return self.send(frame)

    def _deliver(self, data, src, _tos):
        if self._closed:
            return
        self.rxq.append((data, src))
        self.net.world.log('eth-arrive', self.ifname, len(data))
        log = getattr(self.net, 'frame_log', None)
        if log is not None:
            log.append((self.net.world.now, self.node.name if self.node else None, bytes(data)))

    def recvfrom(self, bufsize, _flags=0):
        if not self.rxq:
            raise BlockingIOError(errno.EAGAIN, 'Resource temporarily unavailable')
        (data, src) = self.rxq.pop(0)
        proto = int.from_bytes(data[12:14], 'big') if len(data) >= 14 else 0
        return (data[:bufsize], (self.ifname, proto, 0, 1, src))

    def recv(self, bufsize, _flags=0):
        return self.recvfrom(bufsize)[0]

    def shutdown(self, _how):
        return

    def close(self):
        if self._closed:
            return
        self._closed = True
        for (key, val) in list(self.net.dgram_bound.items()):
            if val is self:
                del self.net.dgram_bound[key]


def _dgram_transmit(self, kind, sock, src, dst, data, tos, seq):
    ''' Apply datagram faults and schedule deliveries. '''
    wld = self.world
    prof = self.prof
    copies = [data]
    if self.dgram_filter is not None:
        copies = self.dgram_filter(kind, src, dst, data, seq)
        if copies is None:
            copies = [data]
    out = []
    for item in copies:
        if prof['dg_drop_64'] and wld.ch.coin('dg.drop', prof['dg_drop_64'], 64):
            wld.count('dg.drop')
            wld.log('dg-drop', seq)
            continue
        out.append(item)
        if prof['dg_dup_64'] and wld.ch.coin('dg.dup', prof['dg_dup_64'], 64):
            wld.count('dg.dup')
            wld.log('dg-dup', seq)
            out.append(item)
    lats = prof['dg_latencies']
    for item in out:
        if prof['dg_corrupt_64'] and wld.ch.coin('dg.corrupt', prof['dg_corrupt_64'], 64) and item:
            pos = wld.ch.pick('dg.corrupt.pos', len(item) * 8)
            arr = bytearray(item)
            arr[pos // 8] ^= 1 << (pos % 8)
            item = bytes(arr)
            wld.count('dg.corrupt')
            wld.log('dg-corrupt', seq, pos)
        lat = lats[0]
        if prof['dg_reorder_64'] and wld.ch.coin('dg.reorder', prof['dg_reorder_64'], 64):
            lat = lats[1 + wld.ch.pick('dg.lat', len(lats) - 1)]
            wld.count('dg.delay')
        down = self.links_down_until.get(kind, 0)
        if down == -1:
            wld.count('dg.partition_drop')
            continue
        when = max(wld.now + lat, down)
        wld.at(when, self._dgram_arrive, kind, src, dst, item, tos)


def _dgram_arrive(self, kind, src, dst, data, tos):
    if kind == 'udp':
        sock = self.dgram_bound.get(('udp', dst[0], dst[1]))
        if sock is not None:
            sock._deliver(data, src, tos)
        else:
            self.world.log('udp-noport', dst)
    else:
        # Ethernet: deliver to every packet socket on other hosts whose address matches
        for (key, sock) in list(self.dgram_bound.items()):
            if key[0] != 'pkt':
                continue
            if sock.hwaddr == src:
                continue
            if dst == b'\xff' * 6 or dst == sock.hwaddr or (dst[0] & 1):
                sock._deliver(data, src, tos)


Net.dgram_transmit = _dgram_transmit
Net._dgram_arrive = _dgram_arrive


class _NetProxy:
    ''' Resolves to the net of the active world at use time. '''

    def __getattr__(self, name):
        return getattr(world().net, name)


def make_socket_facade():
    ''' A module-like object standing in for ``socket`` inside repo modules.
    It always acts on the net of the currently active world. '''
    net = _NetProxy()
    mod = types.ModuleType('socket')
    for name in dir(_real_socket):
        if not name.startswith('__'):
            setattr(mod, name, getattr(_real_socket, name))
    if not hasattr(mod, 'AF_PACKET'):
        mod.AF_PACKET = 17
    if not hasattr(mod, 'IP_RECVTOS'):
        mod.IP_RECVTOS = 13
    if not hasattr(mod, 'IP_PKTINFO'):
        mod.IP_PKTINFO = 8

    def _socket(family=_real_socket.AF_INET, typ=_real_socket.SOCK_STREAM, proto=0, fileno=None):
        typ_base = int(typ) & 0xF
        if int(family) == mod.AF_PACKET:
            return PacketSock(world().net, family, typ, proto)
        if typ_base == int(_real_socket.SOCK_DGRAM):
            return DgramSock(world().net, family, typ, proto)
        return StreamSock(world().net, family, typ, proto)

    def _getaddrinfo(host, port, family=0, typ=0, proto=0, flags=0):
        addr = net.resolve(host) if host is not None else '0.0.0.0'
        import ipaddress
        try:
            ipobj = ipaddress.ip_address(addr)
        except ValueError:
            raise _real_socket.gaierror(-2, 'Name or service not known')
        fam = _real_socket.AF_INET if ipobj.version == 4 else _real_socket.AF_INET6
        sockaddr = (str(ipobj), port or 0) if ipobj.version == 4 else (str(ipobj), port or 0, 0, 0)
        return [(fam, typ or _real_socket.SOCK_STREAM, proto, '', sockaddr)]

    def _if_nametoindex(name):
        node = net.world.cur
        ifaces = sorted(net.prof.get('ifaces', {}).get(node.host if node else None, {}))
        if name in ifaces:
            return 1 + ifaces.index(name)
        raise OSError(errno.ENODEV, 'no interface with this name')

    def _if_indextoname(index):
        node = net.world.cur
        ifaces = sorted(net.prof.get('ifaces', {}).get(node.host if node else None, {}))
        if 1 <= index <= len(ifaces):
            return ifaces[index - 1]
        raise OSError(errno.ENXIO, 'no interface with this index')

    def _gethostname():
        node = net.world.cur
        return node.host if node is not None else 'localhost'

    mod.socket = _socket
    mod.getaddrinfo = _getaddrinfo
    mod.if_nametoindex = _if_nametoindex
    mod.if_indextoname = _if_indextoname
    mod.gethostname = _gethostname
    mod.getfqdn = lambda *_a: _gethostname()
    return mod
