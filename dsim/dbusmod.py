''' Fake ``dbus`` package (DESIGN 2.6): service objects, method/signal
decorators with declared signatures, proxies, a per-host bus daemon, and
marshalling by the model in ref/dbus_sig.py.
'''
import inspect
import sys
import types as _types

from ref import dbus_sig
from .world import world, HarnessError
from . import world as _w


# -- data types -------------------------------------------------------------
class _VL:
    variant_level = 0


class String(str):
    variant_level = 0

    def __new__(cls, value='', variant_level=0):
        obj = str.__new__(cls, value)
        obj.variant_level = variant_level
        return obj


class UTF8String(String):
    pass


class ObjectPath(String):
    pass


class Signature(String):

    def __iter__(self):
        return iter(dbus_sig._unparse(tree) for tree in dbus_sig.parse(str(self)))


def _intcls(name):

    def __new__(cls, value=0, variant_level=0):
        obj = int.__new__(cls, value)
        obj.variant_level = variant_level
        return obj

    return type(name, (int,), {'__new__': __new__, 'variant_level': 0, '__module__': __name__})


Byte = _intcls('Byte')
Int16 = _intcls('Int16')
UInt16 = _intcls('UInt16')
Int32 = _intcls('Int32')
UInt32 = _intcls('UInt32')
Int64 = _intcls('Int64')
UInt64 = _intcls('UInt64')
Boolean = _intcls('Boolean')


class Double(float):
    variant_level = 0

    def __new__(cls, value=0.0, variant_level=0):
        obj = float.__new__(cls, value)
        obj.variant_level = variant_level
        return obj


class ByteArray(bytes):
    variant_level = 0

    def __new__(cls, value=b'', variant_level=0):
        obj = bytes.__new__(cls, value)
        obj.variant_level = variant_level
        return obj


class Array(list):

    def __init__(self, iterable=(), signature=None, variant_level=0):
        list.__init__(self, iterable)
        self.signature = signature
        self.variant_level = variant_level


class Dictionary(dict):

    def __init__(self, mapping_or_iterable=(), signature=None, variant_level=0):
        dict.__init__(self, mapping_or_iterable)
        self.signature = signature
        self.variant_level = variant_level


class Struct(tuple):
    variant_level = 0

    def __new__(cls, iterable=(), signature=None, variant_level=0):
        obj = tuple.__new__(cls, iterable)
        obj.variant_level = variant_level
        return obj


_TYPES = _types.SimpleNamespace(
    String=String, ObjectPath=ObjectPath, Signature=Signature, Byte=Byte,
    Int16=Int16, UInt16=UInt16, Int32=Int32, UInt32=UInt32, Int64=Int64,
    UInt64=UInt64, Boolean=Boolean, Double=Double, ByteArray=ByteArray,
    Array=Array, Dictionary=Dictionary, Struct=Struct,
)


# -- exceptions -------------------------------------------------------------
class DBusException(Exception):

    def __init__(self, *args, **kwargs):
        name = kwargs.pop('name', None)
        if name is not None or not hasattr(self, '_dbus_error_name'):
            self._dbus_error_name = name
        Exception.__init__(self, *args)

    def get_dbus_name(self):
        return self._dbus_error_name

    def get_dbus_message(self):
        return self.args[0] if self.args else ''


class NameExistsException(DBusException):
    pass


class UnknownMethodException(DBusException):
    pass


# -- bus --------------------------------------------------------------------
BUS_SESSION = 0
BUS_SYSTEM = 1
BUS_STARTER = 2


class SimBus:
    ''' One message bus daemon plus "connections" of every process on it. '''

    def __init__(self, wld, name='bus'):
        self.world = wld
        self.name = name
        #: (node name, path) -> service object
        self.objects = {}
        #: well-known name -> node
        self.names = {}
        #: list of dicts: node, sender, path, iface, member, handler
        self.matches = []
        #: observers: func(kind, info dict)
        self.observers = []

    # connection API used by the repo ---------------------------------
    def get_object(self, bus_name, object_path, **_kwargs):
        return ProxyObject(self, bus_name, object_path)

    def get_unique_name(self):
        node = self.world.cur
        return ':sim.%s' % (node.name if node else 'harness')

    def close(self):
        return

    def add_signal_receiver(self, handler, signal_name=None, dbus_interface=None,
                            bus_name=None, path=None, **_kwargs):
        self.matches.append(dict(node=self.world.cur, sender=bus_name, path=path,
                                 iface=dbus_interface, member=signal_name, handler=handler))

    def name_has_owner(self, name):
        return name in self.names

    # internals ----------------------------------------------------------
    def _owner_node(self, bus_name):
        if bus_name is None:
            return None
        if bus_name.startswith(':sim.'):
            return self.world.nodes.get(bus_name[5:])
        return self.names.get(bus_name)

    def _register(self, obj, path):
        node = self.world.cur
        key = (node.name if node else None, path)
        if key in self.objects:
            raise KeyError("Can't register the object-path handler for %r: there is already a handler" % path)
        self.objects[key] = obj

    def _unregister(self, obj, path):
        for (key, val) in list(self.objects.items()):
            if val is obj and key[1] == path:
                del self.objects[key]

    def _request_name(self, name, node):
        old = self.names.get(name)
        if old is not None and old is not node:
            raise NameExistsException('name %s already exists' % name)
        self.names[name] = node
        self._emit_daemon('NameOwnerChanged', (name, '', ':sim.%s' % node.name))

    def _release_name(self, name):
        node = self.names.pop(name, None)
        if node is not None:
            self._emit_daemon('NameOwnerChanged', (name, ':sim.%s' % node.name, ''))

    def _emit_daemon(self, member, args):
        for match in list(self.matches):
            if match['sender'] not in (None, 'org.freedesktop.DBus'):
                continue
            if match['member'] != member:
                continue
            self._queue(match, tuple(String(arg) for arg in args))

    def _queue(self, match, args):
        node = match['node']
        if node is None:
            # harness observer: immediate
            match['handler'](*args)
        elif node.alive:
            node.dbus_pending.append((match['handler'], args))

    def emit(self, obj, path, iface, member, args):
        ''' Deliver an emitted (already marshalled) signal. '''
        src_node = getattr(obj, '_sim_node', None)
        for match in list(self.matches):
            if match['member'] is not None and match['member'] != member:
                continue
            if match['iface'] is not None and match['iface'] != iface:
                continue
            if match['path'] is not None and match['path'] != path:
                continue
            if match['sender'] is not None:
                owner = self._owner_node(match['sender'])
                if owner is not src_node:
                    continue
            self._queue(match, args)

    def call(self, bus_name, path, iface, member, args, from_user=False):
        ''' Synchronous method call through the bus. '''
        wld = self.world
        owner = self._owner_node(bus_name)
        if owner is None or not owner.alive:
            raise DBusException('The name %s was not provided by any .service files' % bus_name,
                                name='org.freedesktop.DBus.Error.ServiceUnknown')
        obj = self.objects.get((owner.name, path))
        if obj is None:
            raise DBusException('Method "%s" on interface "%s" doesn\'t exist: no object at %s' % (member, iface, path),
                                name='org.freedesktop.DBus.Error.UnknownMethod')
        func = getattr(type(obj), member, None)
        if func is None or not getattr(func, '_dbus_is_method', False) or (
                iface is not None and func._dbus_interface != iface):
            raise DBusException('Method "%s" with signature on interface "%s" doesn\'t exist' % (member, iface),
                                name='org.freedesktop.DBus.Error.UnknownMethod')
        in_sig = func._dbus_in_signature
        if in_sig is not None:
            # client-side marshalling failure is the caller's own error
            margs = dbus_sig.marshal(in_sig, tuple(args), _TYPES)
        else:
            margs = tuple(args)
        seq = wld.log('dbus-call', path, member, _shape(margs))
        prev = wld.cur
        wld.cur = owner
        try:
            try:
                ret = func(obj, *margs)
            except DBusException as err:
                wld.log('dbus-error', seq, path, member, type(err).__name__, str(err)[:80])
                raise
            except (_w.CallbackHang, HarnessError):
                raise
            except Exception as err:  # pylint: disable=broad-except
                where = _w._innermost_repo_frame(err.__traceback__)
                wld.log('dbus-error', seq, path, member, type(err).__name__, where[0])
                raise DBusException('%s: %s' % (type(err).__name__, err),
                                    name='org.freedesktop.DBus.Python.%s' % type(err).__name__)
            out_sig = func._dbus_out_signature
            if out_sig is None:
                mret = ret
            else:
                trees = dbus_sig.parse(out_sig)
                try:
                    if len(trees) == 0:
                        mret = None
                    elif len(trees) == 1:
                        mret = dbus_sig.marshal_one(trees[0], ret, _TYPES)
                    else:
                        mret = dbus_sig.marshal(out_sig, tuple(ret), _TYPES)
                except (TypeError, ValueError, OverflowError, UnicodeError) as err:
                    wld.log('dbus-marshal-error', 'return', path, member, out_sig, _shape((ret,)), type(err).__name__)
                    wld.count('dbus-marshal-error')
                    raise DBusException('Unable to marshal return value: %s' % err,
                                        name='org.freedesktop.DBus.Python.%s' % type(err).__name__)
            wld.log('dbus-return', seq, path, member, out_sig, _shape((mret,)))
            return mret
        finally:
            wld.cur = prev


def _plain(arg):
    ''' Plain, hashable, repr-stable rendering of a marshalled value. '''
    if isinstance(arg, (bytes, bytearray)):
        return ('bytes', len(arg), bytes(arg[:8]).hex())
    if isinstance(arg, str):
        return str(arg)
    if isinstance(arg, bool) or arg is None:
        return arg
    if isinstance(arg, int):
        return int(arg)
    if isinstance(arg, float):
        return float(arg)
    if isinstance(arg, dict):
        return tuple(sorted(((_plain(key), _plain(val)) for (key, val) in arg.items()), key=repr))
    if isinstance(arg, (list, tuple)) or hasattr(arg, '__iter__'):
        items = list(arg)
        if len(items) > 16 and all(isinstance(item, int) for item in items):
            return ('bytes', len(items), bytes(item & 0xFF for item in items[:8]).hex())
        return tuple(_plain(item) for item in items)
    return type(arg).__name__


def _shape(args):
    return tuple(_plain(arg) for arg in args)


class ProxyObject:

    def __init__(self, bus, bus_name, path, iface=None):
        self._bus = bus
        self._name = bus_name
        self._path = path
        self._iface = iface

    @property
    def object_path(self):
        return self._path

    @property
    def bus_name(self):
        return self._name

    def connect_to_signal(self, signal_name, handler_function, dbus_interface=None, **_kwargs):
        self._bus.matches.append(dict(
            node=self._bus.world.cur, sender=self._name, path=self._path,
            iface=dbus_interface or self._iface, member=signal_name, handler=handler_function))

    def get_dbus_method(self, member, dbus_interface=None):
        return self._method(member, dbus_interface or self._iface)

    def _method(self, member, iface):
        bus = self._bus
        name = self._name
        path = self._path

        def call(*args, **kwargs):
            kwargs.pop('dbus_interface', None)
            kwargs.pop('timeout', None)
            if name == 'org.freedesktop.DBus':
                if member == 'NameHasOwner':
                    return Boolean(bus.name_has_owner(args[0]))
                if member == 'ListNames':
                    return Array(sorted(bus.names), signature='s')
                raise DBusException('unsupported daemon method %s' % member)
            return bus.call(name, path, iface, member, args)

        call.__name__ = member
        return call

    def __getattr__(self, member):
        if member.startswith('_'):
            raise AttributeError(member)
        return self._method(member, self._iface)


def Interface(obj, dbus_interface):
    return ProxyObject(obj._bus, obj._name, obj._path, dbus_interface)


# -- service side -------------------------------------------------------------
class Object:
    ''' Stand-in for dbus.service.Object. '''
    SUPPORTS_MULTIPLE_OBJECT_PATHS = False
    SUPPORTS_MULTIPLE_CONNECTIONS = False

    def __init__(self, conn=None, object_path=None, bus_name=None):
        self._locations = []
        self._sim_node = _w._WORLD.cur if _w._WORLD is not None else None
        if bus_name is not None and conn is None:
            conn = bus_name.get_bus()
        if conn is not None and object_path is not None:
            self.add_to_connection(conn, object_path)

    @property
    def locations(self):
        return iter(self._locations)

    @property
    def connection(self):
        return self._locations[0][0] if self._locations else None

    def add_to_connection(self, connection, path):
        if isinstance(connection, SimBus):
            connection._register(self, path)
        self._locations.append((connection, path, False))

    def remove_from_connection(self, connection=None, path=None):
        if not self._locations:
            raise LookupError('%r is not exported' % self)
        keep = []
        for loc in self._locations:
            if (connection is None or loc[0] is connection) and (path is None or loc[1] == path):
                if isinstance(loc[0], SimBus):
                    loc[0]._unregister(self, loc[1])
            else:
                keep.append(loc)
        self._locations = keep


def method(dbus_interface, in_signature=None, out_signature=None, **_kwargs):

    def decorator(func):
        args = inspect.getfullargspec(func)[0]
        args = args[1:]
        if in_signature is not None:
            in_sig = dbus_sig.parse(in_signature)
            if len(in_sig) > len(args):
                raise ValueError('input signature is longer than the number of arguments taken')
            if len(in_sig) < len(args):
                raise ValueError('input signature is shorter than the number of arguments taken')
        if out_signature is not None:
            dbus_sig.parse(out_signature)
        func._dbus_is_method = True
        func._dbus_interface = dbus_interface
        func._dbus_in_signature = in_signature
        func._dbus_out_signature = out_signature
        func._dbus_args = args
        return func

    return decorator


def signal(dbus_interface, signature=None, **_kwargs):

    def decorator(func):
        member_name = func.__name__
        args = inspect.getfullargspec(func)[0]
        args = args[1:]
        if signature is not None:
            sig = dbus_sig.parse(signature)
            if len(sig) > len(args):
                raise ValueError('signal signature is longer than the number of arguments provided')
            if len(sig) < len(args):
                raise ValueError('signal signature is shorter than the number of arguments provided')

        def emit_signal(self, *eargs, **keywords):
            func(self, *eargs, **keywords)
            wld = _w._WORLD
            for location in self.locations:
                (conn, path, _fallback) = location
                try:
                    if signature is not None:
                        margs = dbus_sig.marshal(signature, eargs, _TYPES)
                    else:
                        margs = tuple(dbus_sig.marshal_one(dbus_sig.parse(dbus_sig.guess_signature(arg))[0], arg, _TYPES)
                                      for arg in eargs)
                except (TypeError, ValueError, OverflowError, UnicodeError) as err:
                    if wld is not None:
                        wld.log('dbus-marshal-error', 'signal', path, member_name, signature,
                                _shape(eargs), type(err).__name__)
                        wld.count('dbus-marshal-error')
                    raise
                if wld is not None:
                    wld.log('dbus-signal', path, member_name, signature, _shape(margs))
                if isinstance(conn, SimBus):
                    conn.emit(self, path, dbus_interface, member_name, margs)

        emit_signal.__name__ = func.__name__
        emit_signal.__doc__ = func.__doc__
        emit_signal._dbus_is_signal = True
        emit_signal._dbus_interface = dbus_interface
        emit_signal._dbus_signature = signature
        emit_signal._dbus_args = args
        return emit_signal

    return decorator


class BusName:

    def __init__(self, name, bus=None, allow_replacement=False, replace_existing=False, do_not_queue=False):
        self._name = name
        self._bus = bus
        if isinstance(bus, SimBus):
            bus._request_name(name, bus.world.cur)

    def get_bus(self):
        return self._bus

    def get_name(self):
        return self._name

    def __del__(self):
        pass


class BusConnection:

    def __new__(cls, *_args, **_kwargs):
        raise HarnessError('real D-Bus connection requested inside the simulator')


def SessionBus(*_args, **_kwargs):
    raise HarnessError('real D-Bus connection requested inside the simulator')


SystemBus = SessionBus


def install(modules=None):
    ''' Install the fake package tree into ``sys.modules``. '''
    modules = sys.modules if modules is None else modules
    this = sys.modules[__name__]
    pkg = _types.ModuleType('dbus')
    pkg.__path__ = []
    for name in ('String', 'UTF8String', 'ObjectPath', 'Signature', 'Byte', 'Int16', 'UInt16',
                 'Int32', 'UInt32', 'Int64', 'UInt64', 'Boolean', 'Double', 'ByteArray',
                 'Array', 'Dictionary', 'Struct', 'DBusException', 'Interface',
                 'SessionBus', 'SystemBus'):
        setattr(pkg, name, getattr(this, name))
    service = _types.ModuleType('dbus.service')
    for name in ('Object', 'method', 'signal', 'BusName'):
        setattr(service, name, getattr(this, name))
    bus = _types.ModuleType('dbus.bus')
    bus.BusConnection = BusConnection
    bus.BUS_SESSION = BUS_SESSION
    bus.BUS_SYSTEM = BUS_SYSTEM
    bus.BUS_STARTER = BUS_STARTER
    exceptions = _types.ModuleType('dbus.exceptions')
    exceptions.DBusException = DBusException
    exceptions.NameExistsException = NameExistsException
    exceptions.UnknownMethodException = UnknownMethodException
    mainloop = _types.ModuleType('dbus.mainloop')
    mainloop.__path__ = []
    mlglib = _types.ModuleType('dbus.mainloop.glib')
    mlglib.DBusGMainLoop = lambda *a, **k: None
    mlglib.threads_init = lambda *a, **k: None
    lowlevel = _types.ModuleType('dbus.lowlevel')
    pkg.service = service
    pkg.bus = bus
    pkg.exceptions = exceptions
    pkg.mainloop = mainloop
    mainloop.glib = mlglib
    pkg.lowlevel = lowlevel
    modules['dbus'] = pkg
    modules['dbus.service'] = service
    modules['dbus.bus'] = bus
    modules['dbus.exceptions'] = exceptions
    modules['dbus.mainloop'] = mainloop
    modules['dbus.mainloop.glib'] = mlglib
    modules['dbus.lowlevel'] = lowlevel
    return pkg
