''' dsim: deterministic simulator for dtn-demo-agent (see /verif/DESIGN.md section 2).

One OS process hosts one *world*: nodes (each a simulated agent process with
its own GLib main context), hosts and networks between them, per-host D-Bus,
one virtual clock, and one chooser from which every decision is drawn.
'''
