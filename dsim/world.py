''' The simulated world: chooser (choice tape), virtual clock, event heap,
nodes with GLib-like main contexts, history recording.

Nothing in here reads a real clock or an unseeded PRNG.
'''
import hashlib
import heapq
import itertools
import random
import sys
import traceback

# GLib constants
IO_IN = 1
IO_PRI = 2
IO_OUT = 4
IO_ERR = 8
IO_HUP = 16
PRIORITY_HIGH = -100
PRIORITY_DEFAULT = 0
PRIORITY_HIGH_IDLE = 100
PRIORITY_DEFAULT_IDLE = 200
PRIORITY_LOW = 300

#: The active world (replaced per run)
_WORLD = None
#: Process-wide source id counter (never reset, see DESIGN 2.3)
_SRC_IDS = itertools.count(1)


def world():
    if _WORLD is None:
        raise RuntimeError('no simulated world is active')
    return _WORLD


def set_world(wld):
    global _WORLD
    _WORLD = wld


class HarnessError(Exception):
    ''' A defect of the harness, never a violation. '''


class CallbackHang(BaseException):
    ''' Raised by the watchdog inside a callback that never returns. '''


class Chooser:
    ''' Source of every decision. Generate mode draws from a seeded PRNG and
    records the tape; replay mode reads a tape (clamped, 0 when exhausted).
    Value 0 is always the boring choice.
    '''

    def __init__(self, seed=None, tape=None):
        self.replay = tape is not None
        self._in = list(tape) if tape is not None else None
        self._pos = 0
        self._rng = random.Random(seed if seed is not None else 0)
        self.tape = []
        self.labels = None  # set to [] to collect labels (verbose replay)

    def pick(self, label, n):
        ''' Integer in [0, n). '''
        if n <= 1:
            return 0
        if self.replay:
            if self._pos < len(self._in):
                val = self._in[self._pos]
                if val >= n:
                    val = n - 1
                elif val < 0:
                    val = 0
            else:
                val = 0
            self._pos += 1
        else:
            val = self._rng.randrange(n)
        self.tape.append(val)
        if self.labels is not None:
            self.labels.append((label, n, val))
        return val

    def weighted(self, label, weights):
        ''' Index drawn with integer weights; index 0 is the boring one. '''
        total = sum(weights)
        val = self.pick(label, total)
        for ix, wgt in enumerate(weights):
            if val < wgt:
                return ix
            val -= wgt
        return len(weights) - 1

    def coin(self, label, num, den):
        ''' True with probability num/den; value 0 gives False. '''
        if num <= 0:
            return False
        return self.pick(label, den) >= den - num

    def choice(self, label, seq):
        return seq[self.pick(label, len(seq))]

    def rand_bytes(self, label, n):
        ''' Deterministic byte string from one draw. '''
        base = self.pick(label, 1 << 30)
        return hashlib.blake2b(b'%d' % base, digest_size=min(64, max(1, n))).digest()[:n] if n <= 64 else \
            (hashlib.blake2b(b'%d' % base, digest_size=64).digest() * (n // 64 + 1))[:n]


class Source:
    __slots__ = ('sid', 'kind', 'prio', 'func', 'args', 'node', 'expiry',
                 'interval', 'sock', 'cond', 'removed', 'order')

    def __init__(self, kind, prio, func, args, node):
        self.sid = next(_SRC_IDS)
        self.kind = kind
        self.prio = prio
        self.func = func
        self.args = args
        self.node = node
        self.expiry = None
        self.interval = None
        self.sock = None
        self.cond = 0
        self.removed = False


class Node:
    ''' One simulated process with a single GLib main context. '''

    def __init__(self, wld, name, host=None):
        self.world = wld
        self.name = name
        self.host = host
        self.sources = {}
        self.alive = True
        #: wall-clock skew in microseconds
        self.skew_us = 0
        #: node does not run before this time (slow/stalled node fault)
        self.stall_until = 0
        #: D-Bus signal deliveries pending in this node (priority 0)
        self.dbus_pending = []
        self.iterations = 0
        #: consecutive iterations that dispatched only idle-priority sources
        self.idle_streak = 0

    def __repr__(self):
        return '<Node %s>' % self.name

    def next_timeout(self):
        best = None
        for src in self.sources.values():
            if src.kind == 't' and (best is None or src.expiry < best):
                best = src.expiry
        return best

    def ready_sources(self, now):
        out = []
        for src in self.sources.values():
            if src.kind == 'i':
                out.append((src, 0))
            elif src.kind == 't':
                if src.expiry <= now:
                    out.append((src, 0))
            else:
                cond = src.sock._sim_poll() & src.cond
                if cond:
                    out.append((src, cond))
        return out

    def has_ready(self, now):
        if not self.alive or self.stall_until > now:
            return False
        if self.dbus_pending:
            return True
        for src in self.sources.values():
            if src.kind == 'i':
                return True
            if src.kind == 't':
                if src.expiry <= now:
                    return True
            elif src.sock._sim_poll() & src.cond:
                return True
        return False


def _innermost_repo_frame(tb):
    ''' (function, file basename) of the innermost frame that is repo code. '''
    best = None
    for frame, _lineno in traceback.walk_tb(tb):
        fname = frame.f_code.co_filename
        if '/src/' in fname and '/verif/' not in fname and 'site-packages' not in fname:
            best = (frame.f_code.co_name, fname.rsplit('/', 1)[-1])
    return best or ('?', '?')


class World:
    ''' Virtual time in integer microseconds. '''

    #: simulated epoch for wall clocks: 2026-01-01T00:00:00Z as unix time
    EPOCH_UNIX = 1767225600

    def __init__(self, chooser, max_steps=200000, max_time_us=3600 * 10**6):
        self.ch = chooser
        self.now = 0
        self.seq = 0
        self._evseq = itertools.count()
        self.heap = []
        self.nodes = {}
        self.cur = None
        self.hist = []
        self.steps = 0
        self.max_steps = max_steps
        self.max_time_us = max_time_us
        self.capped = None
        self.first_src_id = next(_SRC_IDS)
        #: callbacks run after every node iteration / event (invariants)
        self.invariants = []
        #: per-kind counters of faults fired and probes hit
        self.counters = {}
        #: cpu cost choices per iteration, microseconds
        self.cpu_costs = (50, 20, 100, 200, 500, 1000)
        self.cpu_weights = (10, 3, 3, 2, 1, 1)
        self.verbose = False
        self.stop_flag = False
        #: list of (predicate over world, fn) triggers evaluated after each log
        self.triggers = []
        self._in_trigger = False

    # -- recording -------------------------------------------------------
    def log(self, kind, *data):
        self.seq += 1
        node = self.cur.name if self.cur is not None else '-'
        evt = (self.seq, self.now, node, kind) + data
        self.hist.append(evt)
        if self.verbose:
            sys.stdout.write('  %6d t=%10.6f %-10s %-18s %s\n' % (
                self.seq, self.now / 1e6, node, kind,
                ' '.join(_short(x) for x in data)))
        if self.triggers and not self._in_trigger:
            self._in_trigger = True
            try:
                for trig in list(self.triggers):
                    if trig[0](evt):
                        self.triggers.remove(trig)
                        trig[1](evt)
            finally:
                self._in_trigger = False
        return self.seq

    def count(self, key, inc=1):
        self.counters[key] = self.counters.get(key, 0) + inc

    def digest(self):
        hsh = hashlib.blake2b(digest_size=16)
        for evt in self.hist:
            hsh.update(repr(evt).encode('utf8', 'backslashreplace'))
            hsh.update(b'\n')
        return hsh.hexdigest()

    # -- events ----------------------------------------------------------
    def at(self, when, func, *args):
        if when < self.now:
            when = self.now
        heapq.heappush(self.heap, (when, next(self._evseq), func, args))

    def after(self, delay_us, func, *args):
        self.at(self.now + int(delay_us), func, *args)

    def add_trigger(self, pred, func):
        ''' Run ``func(evt)`` once, right after the first logged event for which
        ``pred(evt)`` holds (history triggers of DESIGN 2.7). The function is
        scheduled as a world event at the current time so it never runs inside
        repo code. '''
        self.triggers.append((pred, lambda evt: self.at(self.now, func, evt)))

    # -- nodes -----------------------------------------------------------
    def add_node(self, name, host=None):
        node = Node(self, name, host)
        self.nodes[name] = node
        return node

    class _AsNode:

        def __init__(self, wld, node):
            self.wld = wld
            self.node = node
            self.prev = None

        def __enter__(self):
            self.prev = self.wld.cur
            self.wld.cur = self.node
            return self.node

        def __exit__(self, *_exc):
            self.wld.cur = self.prev
            return False

    def as_node(self, node):
        if isinstance(node, str):
            node = self.nodes[node]
        return World._AsNode(self, node)

    def wall_us(self, node=None):
        ''' Wall clock (unix microseconds) as seen by a node. '''
        node = node or self.cur
        skew = node.skew_us if node is not None else 0
        return self.EPOCH_UNIX * 10**6 + self.now + skew

    # -- GLib semantic ---------------------------------------------------
    def _new_source(self, kind, prio, func, args):
        if self.cur is None:
            raise HarnessError('GLib source created outside any node context')
        src = Source(kind, prio, func, args, self.cur)
        self.cur.sources[src.sid] = src
        return src

    def source_remove(self, sid):
        if sid < self.first_src_id:
            # stale id from an earlier run (late __del__); ignore silently
            return False
        for node in self.nodes.values():
            src = node.sources.pop(sid, None)
            if src is not None:
                src.removed = True
                return True
        self.log('glib-critical', 'source_remove of unknown id')
        return False

    def iterate(self, node):
        ''' One g_main_context_iteration(may_block=False) of a node. '''
        node.iterations += 1
        self.cur = node
        try:
            # D-Bus dispatch is a priority-0 source of the main context
            ready = node.ready_sources(self.now)
            dbus_batch = node.dbus_pending
            prio = None
            if dbus_batch:
                prio = 0
            for (src, _cond) in ready:
                if prio is None or src.prio < prio:
                    prio = src.prio
            if prio is None:
                return False
            if prio >= PRIORITY_DEFAULT_IDLE:
                node.idle_streak += 1
            else:
                node.idle_streak = 0
            if dbus_batch and prio == 0:
                node.dbus_pending = []
                for (func, args) in dbus_batch:
                    self._call(node, None, func, args)
            for (src, cond) in ready:
                if src.prio != prio or src.removed:
                    continue
                if src.kind == 'o':
                    args = (src.sock, cond) + src.args
                else:
                    args = src.args
                keep = self._call(node, src, src.func, args)
                if src.removed:
                    continue
                if not keep:
                    src.removed = True
                    node.sources.pop(src.sid, None)
                elif src.kind == 't':
                    src.expiry = self.now + src.interval
            return True
        finally:
            self.cur = None

    def _call(self, node, src, func, args):
        try:
            return func(*args)
        except CallbackHang:
            raise
        except HarnessError:
            raise
        except Exception as err:  # pylint: disable=broad-except
            where = _innermost_repo_frame(err.__traceback__)
            self.log('escaped-exception', type(err).__name__, where[0], where[1],
                     getattr(func, '__name__', '?'))
            self.count('escaped-exception')
            if self.verbose:
                traceback.print_exc(file=sys.stdout)
            return False

    # -- main loop -------------------------------------------------------
    def step(self):
        ''' Run one scheduling decision. Returns False when nothing is left. '''
        # deliver all due events first
        while self.heap and self.heap[0][0] <= self.now:
            (_when, _seq, func, args) = heapq.heappop(self.heap)
            func(*args)
            self._check()
        runnable = [node for node in self.nodes.values() if node.has_ready(self.now)]
        if not runnable:
            nxt = self._peek_next()
            if nxt is None:
                return False
            if nxt > self.max_time_us:
                self.capped = 'time'
                return False
            if nxt > self.now:
                self.now = nxt
            return True
        if len(runnable) > 1:
            node = runnable[self.ch.pick('node', len(runnable))]
        else:
            node = runnable[0]
        self.iterate(node)
        self.steps += 1
        cost = self.cpu_costs[self.ch.weighted('cpu', self.cpu_weights)]
        if node.idle_streak > 4:
            # a process spinning on an idle source: legal to be arbitrarily
            # slow; keeps busy-waits from dominating the step budget
            cost <<= min(node.idle_streak - 4, 6)
        # per-node CPU: this node is busy for ``cost``; other nodes (other
        # processes / hosts) are not delayed by it
        if node.stall_until < self.now + cost:
            node.stall_until = self.now + cost
        self._check()
        return True

    def _check(self):
        for inv in self.invariants:
            inv(self)

    def run(self, until_us=None, stop=None):
        ''' Run until quiescent, a cap, ``until_us`` or ``stop()`` is true. '''
        while True:
            if self.steps >= self.max_steps:
                self.capped = 'steps'
                return
            if self.now > self.max_time_us:
                self.capped = 'time'
                return
            if until_us is not None and self.now >= until_us:
                return
            if stop is not None and stop():
                return
            if until_us is not None:
                # do not jump past the horizon
                nxt_ok = self._peek_next()
                if nxt_ok is not None and nxt_ok > until_us and not self._any_ready():
                    self.now = until_us
                    return
            if not self.step():
                if until_us is not None and self.capped is None:
                    self.now = max(self.now, until_us)
                return

    def _any_ready(self):
        if self.heap and self.heap[0][0] <= self.now:
            return True
        return any(node.has_ready(self.now) for node in self.nodes.values())

    def _peek_next(self):
        ''' Earliest future time at which something can happen. '''
        nxt = self.heap[0][0] if self.heap else None
        for node in self.nodes.values():
            if not node.alive:
                continue
            tmo = node.next_timeout()
            if tmo is not None:
                if node.stall_until > tmo:
                    tmo = node.stall_until
                if nxt is None or tmo < nxt:
                    nxt = tmo
            if node.stall_until > self.now and (node.dbus_pending or node.sources):
                if nxt is None or node.stall_until < nxt:
                    nxt = node.stall_until
        return nxt


def _short(val):
    if isinstance(val, (bytes, bytearray)):
        if len(val) > 24:
            return '<%d:%s..>' % (len(val), bytes(val[:12]).hex())
        return '<%s>' % bytes(val).hex()
    text = repr(val)
    if len(text) > 100:
        text = text[:100] + '..'
    return text
