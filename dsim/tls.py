''' TLS stub (DESIGN 2.5): an ``ssl`` facade whose wrapped sockets pass octets
through; the handshake succeeds or fails as the scenario decides and
``getpeercert`` returns the certificate the scenario gave the peer.

Provides the <=3.11 ``ssl`` API the repository was written against
(``match_hostname``).
'''
import ssl as _real_ssl
import types

from .world import world

FACADE = types.ModuleType('ssl')
for _name in dir(_real_ssl):
    if not _name.startswith('__'):
        setattr(FACADE, _name, getattr(_real_ssl, _name))
for (_name, _val) in (('PROTOCOL_TLSv1', 3), ('PROTOCOL_TLSv1_1', 4), ('PROTOCOL_TLSv1_2', 5)):
    if not hasattr(FACADE, _name):
        setattr(FACADE, _name, _val)


class SimSSLContext:

    def __init__(self, protocol=None, *_args, **_kwargs):
        self.protocol = protocol
        self.keylog_filename = None
        self.verify_mode = None
        self.ca_file = None
        self.cert_file = None
        self.key_file = None
        self.ciphers = None
        self.check_hostname = False

    def set_ciphers(self, ciphers):
        self.ciphers = ciphers

    def load_verify_locations(self, cafile=None, capath=None, cadata=None):
        self.ca_file = cafile

    def load_cert_chain(self, certfile, keyfile=None, password=None):
        self.cert_file = certfile
        self.key_file = keyfile

    def load_dh_params(self, _path):
        return

    def wrap_socket(self, sock, server_side=False, do_handshake_on_connect=True,
                    suppress_ragged_eofs=True, server_hostname=None, session=None):
        tls = SimTlsSocket(sock, self, server_side, server_hostname)
        if do_handshake_on_connect:
            tls.do_handshake()
        return tls


class SimTlsSocket:
    ''' Pass-through wrapper. World attribute ``tls_plan`` maps a connection
    id to dict(fail=bool); ``tls_certs`` maps a cert "file name" to
    (der bytes, decoded dict). '''
    _sim = True

    def __init__(self, sock, ctx, server_side, server_hostname):
        self._sock = sock
        # from now on every octet of this connection has to go through the TLS layer
        sock._tls_owner = self
        self._ctx = ctx
        self.server_side = server_side
        self.server_hostname = server_hostname
        self._done = False

    def __repr__(self):
        return '<SimTlsSocket over %r>' % (self._sock,)

    def do_handshake(self, block=False):
        wld = world()
        cid = self._sock.conn.cid
        plan = getattr(wld, 'tls_plan', {}).get(cid, {})
        wld.log('tls-handshake', cid, 'server' if self.server_side else 'client', bool(plan.get('fail')))
        state = wld.__dict__.setdefault('tls_state', {}).setdefault(cid, {})
        state['server' if self.server_side else 'client'] = self._ctx
        if plan.get('fail'):
            wld.count('tls.handshake_fail')
            raise FACADE.SSLError(1, '[SSL] simulated handshake failure')
        if self._sock._closed or self._sock.rx_eof or self._sock.rx_err:
            raise FACADE.SSLError(1, '[SSL] EOF during handshake')
        self._done = True

    def _peer_ctx(self):
        wld = world()
        state = wld.__dict__.setdefault('tls_state', {}).get(self._sock.conn.cid, {})
        ctx = state.get('client' if self.server_side else 'server')
        if ctx is None:
            # the peer has not called do_handshake yet: look at its agent config
            peers = getattr(wld, 'tls_peer_cert', {})
            return peers.get((self._sock.conn.cid, 'client' if self.server_side else 'server'))
        return ctx.cert_file

    def getpeercert(self, binary_form=False):
        wld = world()
        no_verify = self._ctx.verify_mode in (None, FACADE.CERT_NONE)
        if no_verify and self.server_side:
            # a server that does not ask for a client certificate (CERT_NONE) never gets one
            return None if binary_form else {}
        if no_verify and not binary_form:
            # without verification only the raw certificate is available
            return {}
        certfile = self._peer_ctx()
        if certfile is None:
            return None if binary_form else {}
        (der, decoded) = wld.tls_certs[certfile]
        return der if binary_form else decoded

    def cipher(self):
        return ('TLS_SIM_WITH_NULL', 'TLSv1.3', 0)

    def version(self):
        return 'TLSv1.3'

    def unwrap(self):
        return self._sock

    # pass-through
    def fileno(self):
        return self._sock.fileno()

    def setblocking(self, flag):
        self._sock.setblocking(flag)

    def send(self, data, flags=0):
        self._sock._tls_passthrough = True
        try:
            return self._sock.send(data, flags)
        finally:
            self._sock._tls_passthrough = False

    def recv(self, size, flags=0):
        try:
            return self._sock.recv(size, flags)
        except BlockingIOError:
            raise FACADE.SSLWantReadError(2, 'The operation did not complete (read)')

    def shutdown(self, how):
        return self._sock.shutdown(how)

    def close(self):
        return self._sock.close()

    def getpeername(self):
        return self._sock.getpeername()

    def getsockname(self):
        return self._sock.getsockname()

    def _sim_poll(self):
        return self._sock._sim_poll()


def _match_hostname(cert, hostname):
    ''' Minimal port of the removed ssl.match_hostname: exact matches only. '''
    if not cert:
        raise ValueError('empty or no certificate')
    import ipaddress
    names = []
    for (key, val) in cert.get('subjectAltName', ()):
        names.append(val)
        if key == 'DNS' and val == hostname:
            return
        if key == 'IP Address':
            try:
                if ipaddress.ip_address(val) == ipaddress.ip_address(hostname):
                    return
            except ValueError:
                pass
    raise FACADE.CertificateError("hostname %r doesn't match %r" % (hostname, names))


FACADE.SSLContext = SimSSLContext
FACADE.match_hostname = _match_hostname
if not hasattr(FACADE, 'CertificateError'):
    FACADE.CertificateError = _real_ssl.SSLCertVerificationError
